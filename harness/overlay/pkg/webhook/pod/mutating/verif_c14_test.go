//go:build verif

package mutating

import (
	"fmt"
	"testing"

	"github.com/containerd/nri/pkg/api"
	corev1 "k8s.io/api/core/v1"
	"k8s.io/apimachinery/pkg/api/resource"
	metav1 "k8s.io/apimachinery/pkg/apis/meta/v1"

	apiext "github.com/koordinator-sh/koordinator/apis/extension"
	runtimeapi "github.com/koordinator-sh/koordinator/apis/runtime/v1alpha1"
	"github.com/koordinator-sh/koordinator/pkg/koordlet/runtimehooks/hooks/batchresource"
	"github.com/koordinator-sh/koordinator/pkg/koordlet/runtimehooks/protocol"
	"github.com/koordinator-sh/koordinator/pkg/koordlet/statesinformer"
)

// C14 composition harness (property C14, observe_at: "after the hook ran on a request built from a
// webhook-mutated pod"): pod spec with batch resources -> the real webhook step that dumps them into the
// extended-resource-spec annotation -> runtime-proxy request (labels + annotations only) -> the real
// BatchResource hook.  The op line carries the amounts DECLARED IN THE POD SPEC, so a container that the
// webhook drops or distorts shows up against the model and the oracle.

func c14wAmount(r *vRand) int64 {
	switch r.Intn(8) {
	case 0:
		return -1 // not declared
	case 1:
		return 0
	case 2:
		return int64(r.Range(1, 9))
	default:
		return int64(r.Range(10, 64000))
	}
}

func c14wQty(r *vRand, v int64, mem bool) resource.Quantity {
	if mem && v > 0 && r.Chance(1, 3) {
		// quantities as users write them: binary suffixes, fractional values (stored in arbitrary-precision form)
		switch r.Intn(3) {
		case 0:
			return resource.MustParse(fmt.Sprintf("%d.5Gi", v%7))
		case 1:
			return resource.MustParse(fmt.Sprintf("%dTi", 100+v%50))
		default:
			return resource.MustParse(fmt.Sprintf("%dMi", v))
		}
	}
	if mem {
		return *resource.NewQuantity(v, resource.BinarySI)
	}
	return *resource.NewQuantity(v, resource.DecimalSI)
}

func c14wStdShares(m int64) int64 {
	if m <= 0 {
		return 2
	}
	s := m * 1024 / 1000
	if s < 2 {
		s = 2
	}
	if s > 262144 {
		s = 262144
	}
	return s
}

func c14wStdQuota(m int64) int64 {
	if m <= 0 {
		return -1
	}
	q := m * 100
	if q < 1000 {
		q = 1000
	}
	return q
}

func c14wShow(res *protocol.Resources) (string, [3]int64, bool) {
	if res.CPUShares == nil && res.CFSQuota == nil && res.MemoryLimit == nil {
		return "untouched", [3]int64{}, false
	}
	if res.CPUShares == nil || res.CFSQuota == nil || res.MemoryLimit == nil {
		return "partial", [3]int64{}, false
	}
	return fmt.Sprintf("%d %d %d", *res.CPUShares, *res.CFSQuota, *res.MemoryLimit),
		[3]int64{*res.CPUShares, *res.CFSQuota, *res.MemoryLimit}, true
}

func TestVerifC14Webhook(t *testing.T) {
	h := vOpen("C14")
	if h == nil {
		t.Skip("VERIF_OUT not set")
	}
	n := h.N(2500, 60000)
	hook := batchresource.Object() // default rule: CFS quota on, no normalisation ratio
	for idx := 0; idx < n; idx++ {
		r := h.Begin(idx)
		if r == nil {
			continue
		}
		nc := r.Range(1, 5)
		isBE := !r.Chance(1, 6)
		pod := &corev1.Pod{ObjectMeta: metav1.ObjectMeta{Namespace: "ns", Name: "p", UID: "u", Labels: map[string]string{}, Annotations: map[string]string{}}}
		if isBE {
			pod.Labels[apiext.LabelPodQoS] = string(apiext.QoSBE)
		} else if r.Bool() {
			pod.Labels[apiext.LabelPodQoS] = string(apiext.QoSLS)
		}
		type decl struct {
			name          string
			req, lim, mem int64 // declared amounts read back from the quantities actually put into the spec
			declared      bool
		}
		var ds []decl
		for i := 0; i < nc; i++ {
			c := corev1.Container{Name: fmt.Sprintf("c%d", i)}
			d := decl{name: c.Name, req: -1, lim: -1, mem: -1}
			reqCPU, limCPU, limMem := c14wAmount(r), c14wAmount(r), c14wAmount(r)
			if r.Chance(1, 5) { // limits only: the request is missing
				reqCPU = -1
			}
			if reqCPU >= 0 {
				c.Resources.Requests = corev1.ResourceList{apiext.BatchCPU: c14wQty(r, reqCPU, false)}
				if r.Bool() {
					c.Resources.Requests[apiext.BatchMemory] = c14wQty(r, int64(r.Range(1, 4096)), true)
				}
				q := c.Resources.Requests[apiext.BatchCPU]
				d.req = q.Value()
			}
			if limCPU >= 0 || limMem >= 0 {
				c.Resources.Limits = corev1.ResourceList{}
				if limCPU >= 0 {
					c.Resources.Limits[apiext.BatchCPU] = c14wQty(r, limCPU, false)
					q := c.Resources.Limits[apiext.BatchCPU]
					d.lim = q.Value()
				}
				if limMem >= 0 {
					c.Resources.Limits[apiext.BatchMemory] = c14wQty(r, limMem, true)
					q := c.Resources.Limits[apiext.BatchMemory]
					d.mem = q.Value()
				}
			}
			if r.Chance(1, 4) { // a native resource next to the batch ones must not matter
				if c.Resources.Requests == nil {
					c.Resources.Requests = corev1.ResourceList{}
				}
				c.Resources.Requests[corev1.ResourceCPU] = *resource.NewMilliQuantity(int64(r.Range(1, 4000)), resource.DecimalSI)
			}
			d.declared = len(c.Resources.Requests) > 0 && (d.req >= 0 || c.Resources.Requests[apiext.BatchMemory] != (resource.Quantity{})) || d.lim >= 0 || d.mem >= 0
			// "declares a batch resource" = has a batch-cpu / batch-memory entry in requests or limits
			_, hasReqMem := c.Resources.Requests[apiext.BatchMemory]
			d.declared = d.req >= 0 || hasReqMem || d.lim >= 0 || d.mem >= 0
			pod.Spec.Containers = append(pod.Spec.Containers, c)
			ds = append(ds, d)
		}
		handler := &PodMutatingHandler{}
		if _, err := handler.mutateByExtendedResources(pod); err != nil {
			h.Tag("webhook-error")
		}
		var declared []decl
		for _, d := range ds {
			if d.declared {
				declared = append(declared, d)
			}
		}
		hasSpec := len(declared) > 0
		flat := []int64{}
		for _, d := range declared {
			flat = append(flat, d.req, d.lim, d.mem)
		}
		h.Op("pod %d %d %d %s", vB(isBE), vB(hasSpec), len(declared), vInts(flat))
		h.Tag(fmt.Sprintf("declared:%d/%d", len(declared), nc))
		if isBE && hasSpec {
			h.Nontrivial()
		}
		h.Obs("eff 1 -100")
		podCtx := &protocol.PodContext{}
		podCtx.Request.FromProxy(&runtimeapi.PodSandboxHookRequest{
			PodMeta: &runtimeapi.PodSandboxMetadata{Name: "p", Namespace: "ns", Uid: "u"}, Labels: pod.Labels, Annotations: pod.Annotations})
		var podOut [3]int64
		podOK := false
		if h.Guard(func() { _ = hook.SetPodResources(podCtx) }) {
			h.Obs("pod panic")
		} else {
			s, v, ok := c14wShow(&podCtx.Response.Resources)
			podOut, podOK = v, ok
			h.Obs("pod %s", s)
		}
		if (!isBE || !hasSpec) && podOK {
			h.Fail("C14:non-be-touched", "pod not BE / declaring nothing but the response is set")
		}
		if isBE && hasSpec {
			if !podOK {
				h.Fail("C14:be-not-set", "BE pod declaring batch resources but the pod response is not set")
			} else {
				var sumReq, sumLim, sumMem int64
				unlimCPU, unlimMem := false, false
				for _, d := range declared {
					if d.req > 0 {
						sumReq += d.req
					}
					if d.lim <= 0 {
						unlimCPU = true
					} else {
						sumLim += d.lim
					}
					if d.mem <= 0 {
						unlimMem = true
					} else {
						sumMem += d.mem
					}
				}
				wantQ, wantM := c14wStdQuota(sumLim), sumMem
				if unlimCPU {
					wantQ = -1
				}
				if unlimMem {
					wantM = -1
				}
				if podOut[0] != c14wStdShares(sumReq) || podOut[1] != wantQ || podOut[2] != wantM {
					h.Fail("C14:webhook-pod-conversion", "pod got %v, declared sums give %d %d %d", podOut, c14wStdShares(sumReq), wantQ, wantM)
				}
			}
		}
		for _, d := range ds {
			cctx := &protocol.ContainerContext{}
			cctx.Request.FromProxy(&runtimeapi.ContainerResourceHookRequest{
				PodMeta:       &runtimeapi.PodSandboxMetadata{Name: "p", Namespace: "ns", Uid: "u"},
				ContainerMeta: &runtimeapi.ContainerMetadata{Name: d.name, Id: "containerd://x"},
				PodLabels:     pod.Labels, PodAnnotations: pod.Annotations})
			if h.Guard(func() { _ = hook.SetContainerResources(cctx) }) {
				if d.declared {
					h.Obs("ctr panic")
				}
				continue
			}
			s, v, ok := c14wShow(&cctx.Response.Resources)
			if !d.declared {
				if ok {
					h.Fail("C14:undeclared-container-touched", "container %s declares no batch resource but got %v", d.name, v)
				}
				continue
			}
			h.Obs("ctr %s", s)
			if !isBE {
				if ok {
					h.Fail("C14:non-be-touched", "container of a non-BE pod touched")
				}
				continue
			}
			if !ok {
				h.Fail("C14:webhook-container-dropped", "container %s declares batch resources (req %d lim %d mem %d) but nothing was injected", d.name, d.req, d.lim, d.mem)
				continue
			}
			wantM := d.mem
			if wantM <= 0 {
				wantM = -1
			}
			if v[0] != c14wStdShares(d.req) || v[1] != c14wStdQuota(d.lim) || v[2] != wantM {
				h.Fail("C14:webhook-container-conversion", "container %s got %v want %d %d %d", d.name, v, c14wStdShares(d.req), c14wStdQuota(d.lim), wantM)
			}
			if podOK && isBE {
				qle := func(a, b int64) bool { return b == -1 || (a != -1 && a <= b) }
				if v[0] > podOut[0] || !qle(v[1], podOut[1]) || !qle(v[2], podOut[2]) {
					h.Fail("C14:webhook-pod-tighter", "container %s %v vs pod %v", d.name, v, podOut)
				}
			}
		}
		// ---- the NRI path reads the same labels + annotations from the sandbox; it must agree with the proxy path ----
		{
			sandbox := &api.PodSandbox{Id: "sb", Name: "p", Namespace: "ns", Uid: "u", Labels: pod.Labels, Annotations: pod.Annotations,
				Linux: &api.LinuxPodSandbox{CgroupParent: "kubepods/besteffort/podu"}}
			h.Op("pod %d %d %d %s", vB(isBE), vB(hasSpec), len(declared), vInts(flat))
			h.Obs("eff 1 -100")
			nctx := &protocol.PodContext{}
			nctx.Request.FromNri(sandbox)
			if h.Guard(func() { _ = hook.SetPodResources(nctx) }) {
				h.Obs("pod panic")
			} else {
				s, v, ok := c14wShow(&nctx.Response.Resources)
				h.Obs("pod %s", s)
				if ok != podOK || v != podOut {
					h.Fail("C14:nri-path-differs", "pod: proxy path gives %v (set=%v), NRI path %v (set=%v)", podOut, podOK, v, ok)
				}
			}
			for _, d := range ds {
				cctx := &protocol.ContainerContext{}
				cctx.Request.FromNri(sandbox, &api.Container{Id: "x", Name: d.name, PodSandboxId: "sb"})
				if h.Guard(func() { _ = hook.SetContainerResources(cctx) }) {
					if d.declared {
						h.Obs("ctr panic")
					}
					continue
				}
				s, v, ok := c14wShow(&cctx.Response.Resources)
				if !d.declared {
					if ok {
						h.Fail("C14:undeclared-container-touched", "NRI path: container %s declares no batch resource but got %v", d.name, v)
					}
					continue
				}
				h.Obs("ctr %s", s)
				if isBE {
					wantM := d.mem
					if wantM <= 0 {
						wantM = -1
					}
					if !ok {
						h.Fail("C14:webhook-container-dropped", "NRI path: container %s declares batch resources but nothing was injected", d.name)
					} else if v[0] != c14wStdShares(d.req) || v[1] != c14wStdQuota(d.lim) || v[2] != wantM {
						h.Fail("C14:webhook-container-conversion", "NRI path: container %s got %v want %d %d %d", d.name, v, c14wStdShares(d.req), c14wStdQuota(d.lim), wantM)
					}
				} else if ok {
					h.Fail("C14:non-be-touched", "NRI path: container of a non-BE pod touched")
				}
			}
		}
		// ---- the reconciler path reads the pod SPEC (not the annotation); it must agree with the proxy path ----
		for i := range pod.Spec.Containers {
			pod.Status.ContainerStatuses = append(pod.Status.ContainerStatuses, corev1.ContainerStatus{
				Name: pod.Spec.Containers[i].Name, ContainerID: fmt.Sprintf("containerd://id%d", i)})
		}
		podMeta := &statesinformer.PodMeta{Pod: pod, CgroupDir: "kubepods/besteffort/podu"}
		h.Op("pod %d %d %d %s", vB(isBE), vB(hasSpec), len(declared), vInts(flat))
		h.Obs("eff 1 -100")
		rctx := &protocol.PodContext{}
		rctx.Request.FromReconciler(podMeta)
		if h.Guard(func() { _ = hook.SetPodResources(rctx) }) {
			h.Obs("pod panic")
		} else {
			s, v, ok := c14wShow(&rctx.Response.Resources)
			h.Obs("pod %s", s)
			if ok != podOK || v != podOut {
				h.Fail("C14:reconciler-path-differs", "pod: proxy path gives %v (set=%v), reconciler path %v (set=%v)", podOut, podOK, v, ok)
			}
		}
		for _, d := range ds {
			cctx := &protocol.ContainerContext{}
			cctx.Request.FromReconciler(podMeta, d.name, false)
			if h.Guard(func() { _ = hook.SetContainerResources(cctx) }) {
				if d.declared {
					h.Obs("ctr panic")
				}
				continue
			}
			s, v, ok := c14wShow(&cctx.Response.Resources)
			if !d.declared {
				if ok {
					h.Fail("C14:undeclared-container-touched", "reconciler path: container %s declares no batch resource but got %v", d.name, v)
				}
				continue
			}
			h.Obs("ctr %s", s)
			if isBE {
				wantM := d.mem
				if wantM <= 0 {
					wantM = -1
				}
				if !ok {
					h.Fail("C14:webhook-container-dropped", "reconciler path: container %s declares batch resources but nothing was injected", d.name)
				} else if v[0] != c14wStdShares(d.req) || v[1] != c14wStdQuota(d.lim) || v[2] != wantM {
					h.Fail("C14:webhook-container-conversion", "reconciler path: container %s got %v want %d %d %d", d.name, v, c14wStdShares(d.req), c14wStdQuota(d.lim), wantM)
				}
			}
		}
		h.End()
	}
	h.Close("pod spec with 1-5 containers declaring batch-cpu/batch-memory requests/limits (missing request, limits only, zero, fractional/huge binary-suffix quantities, extra native entries) " +
		"-> real webhook step mutateByExtendedResources -> (a) runtime-proxy request built from labels+annotations, (a') NRI sandbox with the same labels+annotations, (b) reconciler request built from the pod spec -> real BatchResource hook, all compared; non-trivial = BE pod with at least one declaring container")
}
