//go:build verif

package elasticquota

import (
	"context"
	"fmt"
	"os"
	"sort"
	"strconv"
	"testing"
	"time"

	"sigs.k8s.io/controller-runtime/pkg/client"

	"github.com/koordinator-sh/koordinator/apis/thirdparty/scheduler-plugins/pkg/apis/scheduling/v1alpha1"
)

// C15 harness, round 4: a delete whose pod List is IN FLIGHT while another admission request (or an informer event) for
// the same topology arrives.  The property quantifies over the admitted requests, whatever thread decided them: after
// both verdicts the admitted objects still form a well-formed tree ("every parent exists", "a quota with children is not
// deleted").  ValidDeleteQuota keeps the topology lock from its 'exists and has no children' check across the pod List
// to the removal, so the other request waits and is decided AFTER the delete (Model/C15Race.lean: `raceExec .atomic`;
// Ties: tie_delete_one_section).  The stream makes the interleaving deterministic: the stub client's List, when armed,
// launches the other request on a second goroutine and waits for it — bounded, because on the unchanged tree the other
// request must block on the lock ("blocked" is the expected outcome; it is then decided after the delete and, when it
// hangs a child under the deleted quota, must be rejected).

type c15RaceClient struct {
	*c15Client
	armed    bool
	nested   func()
	window   time.Duration
	launched bool          // the List of the armed request was reached and the other request was launched from it
	overlap  bool          // the other request RETURNED while the List was in flight
	done     chan struct{} // closed when the other request has returned
}

func (c *c15RaceClient) List(ctx context.Context, list client.ObjectList, opts ...client.ListOption) error {
	if c.armed {
		c.armed = false
		c.launched = true
		c.done = make(chan struct{})
		go func() {
			defer close(c.done)
			c.nested()
		}()
		select {
		case <-c.done:
			c.overlap = true
		case <-time.After(c.window):
		}
	}
	return c.c15Client.List(ctx, list, opts...)
}

// one request of the race step as the oracle sees it
type c15RaceEv struct {
	kind   string // add / upd / del
	target int
	sp     *c15Spec
	ok     bool
	label  bool // del: pods carry the quota-name label of the target
}

func c15CopyStore(store map[int]*c15Spec) map[int]*c15Spec {
	out := make(map[int]*c15Spec, len(store))
	for k, v := range store {
		out[k] = v
	}
	return out
}

// c15RaceJudge: the admitted requests of `order`, entered one after the other into the oracle's store of admitted objects,
// keep it well-formed (c15Judge: every clause on the admitted objects themselves), an admitted update / delete concerns an
// admitted quota, and an admitted delete removes a quota without children and without label-bound pods.
func c15RaceJudge(store map[int]*c15Spec, order []c15RaceEv) (map[int]*c15Spec, string, string) {
	st := c15CopyStore(store)
	book := c15NewBook()
	for _, e := range order {
		if !e.ok {
			continue
		}
		old := st[e.target]
		switch e.kind {
		case "add":
			if old != nil {
				return st, "C15:admitted:duplicate-name", fmt.Sprintf("create of quota %d admitted although a quota of that name is admitted", e.target)
			}
			st[e.target] = e.sp
		case "upd":
			if old == nil {
				return st, "C15:update-unknown-accepted", fmt.Sprintf("update of quota %d admitted although no such quota is admitted", e.target)
			}
			st[e.target] = e.sp
		case "del":
			if old == nil {
				return st, "C15:delete-unknown-accepted", fmt.Sprintf("delete of quota %d admitted although no such quota is admitted", e.target)
			}
			names := make([]int, 0, len(st))
			for n := range st {
				names = append(names, n)
			}
			sort.Ints(names)
			for _, n := range names {
				if st[n].parent == e.target {
					return st, "C15:delete-guard", fmt.Sprintf("quota %d deleted while the admitted quota %d has it as parent", e.target, n)
				}
			}
			if e.label {
				return st, "C15:delete-guard", fmt.Sprintf("quota %d deleted while pods are bound to it", e.target)
			}
			delete(st, e.target)
		}
		book.admitted(e.kind, old, e.sp, e.target)
		if fp, what := c15Judge(st, true, book); fp != "" {
			return st, fp, what
		}
	}
	return st, "", ""
}

// c15RaceParams: everything one race case depends on (drawn at random by the stream `race`, enumerated by `race-exhaustive`).
type c15RaceParams struct {
	two        bool  // cpu + memory (else cpu only)
	tree       int   // tree id of every quota
	deep       bool  // q3 (and q5) hang under a grandparent q6 instead of the root
	pIsParent  bool  // q3 is marked is-parent
	pMin       int64 // min of q3
	pNs        bool  // q3 declares namespace 1
	xIsParent  bool
	xMin       int64
	xUnderRoot bool // q5 hangs off the root even when deep
	hasKid     bool // q3 already has the child q4 (the delete is then decided before its pod list)
	targetX    bool // the delete concerns q5 instead of q3
	variant    int  // the concurrent request, see c15RaceCase
	childMin   int64
	childIsPar bool
	selfMin    int64
	labelPod   bool // a pod carries the quota-name label of the delete's target
	otherPods  bool
	fail       bool // the pod List fails
	evShape    int  // informer variant: 0 typed object, 1 unstructured
	probe      int
}

func c15RaceDraw(r *vRand) c15RaceParams {
	var p c15RaceParams
	p.two = r.Bool()
	if r.Chance(1, 4) {
		p.tree = 1
	}
	p.deep = r.Bool()
	p.pIsParent = !r.Chance(1, 10)
	p.pMin = r.Pick([]int64{4000, 6000, 8000})
	p.pNs = r.Chance(1, 4)
	p.xIsParent = r.Bool()
	p.xMin = r.Pick([]int64{0, 1000, 2000})
	p.xUnderRoot = r.Chance(1, 5)
	p.hasKid = r.Chance(1, 6)
	p.targetX = r.Chance(1, 8)
	p.variant = r.Intn(6)
	if p.variant == 5 && !p.hasKid {
		p.variant = r.Intn(3)
	}
	if p.variant == 2 && !p.pIsParent {
		p.variant = 0
	}
	p.childMin = r.Pick([]int64{0, 1000, 2000, 2000, 3000, 9000})
	p.childIsPar = r.Bool()
	p.selfMin = r.Pick([]int64{3000, 5000})
	p.labelPod = r.Chance(1, 8)
	p.otherPods = r.Chance(1, 4)
	p.fail = r.Chance(1, 20)
	if r.Chance(1, 4) {
		p.evShape = 1
	}
	p.probe = r.Intn(3)
	return p
}

// TestVerifC15RaceExhaustive (thorough tier): every combination of the prefix shape, the delete's target, the concurrent
// request and the pod environment of the race step.
func TestVerifC15RaceExhaustive(t *testing.T) {
	h := vOpen("C15")
	if h == nil {
		t.Skip("VERIF_OUT not set")
	}
	window := 12 * time.Millisecond
	if v, err := strconv.Atoi(os.Getenv("VERIF_C15_RACE_WINDOW_MS")); err == nil && v > 0 {
		window = time.Duration(v) * time.Millisecond
	}
	var all []c15RaceParams
	bools := []bool{false, true}
	for _, deep := range bools {
		for _, pIsParent := range []bool{true, false} {
			for _, xIsParent := range bools {
				for _, hasKid := range bools {
					for _, targetX := range bools {
						for variant := 0; variant < 6; variant++ {
							if (variant == 5 && !hasKid) || (variant == 2 && !pIsParent) || (hasKid && !pIsParent) {
								continue
							}
							for env := 0; env < 3; env++ {
								for _, childMin := range []int64{2000, 9000} {
									if childMin == 9000 && variant != 0 {
										continue
									}
									for probe := 0; probe < 3; probe++ {
										all = append(all, c15RaceParams{two: variant%2 == 0, deep: deep, pIsParent: pIsParent, pMin: 6000, pNs: env == 1,
											xIsParent: xIsParent, xMin: 1000, hasKid: hasKid, targetX: targetX, variant: variant, childMin: childMin,
											childIsPar: probe == 1, selfMin: 3000, labelPod: env == 1, fail: env == 2, evShape: probe % 2, probe: probe})
									}
								}
							}
						}
					}
				}
			}
		}
	}
	n := vEnvInt("VERIF_N", len(all))
	if os.Getenv("VERIF_C15_RACE") == "0" {
		n = 0
	}
	for idx := 0; idx < n && idx < len(all); idx++ {
		if r := h.Begin(idx); r == nil {
			continue
		}
		c15RaceCase(h, all[idx], window)
		h.End()
	}
	h.Close(fmt.Sprintf("EXHAUSTIVE race step: %d cases = grandparent y/n x q3 is-parent y/n x q5 is-parent y/n x q3 has a child y/n x delete of q3 / q5 x 6 concurrent "+
		"requests (create child under q3 [fitting / too large min], re-parent q5 under q3, informer OnQuotaAdd, re-parent q3 itself, create elsewhere, delete q3's child) x "+
		"pod environment (none / label pod + namespace / failing List) x 3 probes; non-trivial = the delete reached its pod List and the other request concerns the deleted quota", len(all)))
}

func TestVerifC15Race(t *testing.T) {
	h := vOpen("C15")
	if h == nil {
		t.Skip("VERIF_OUT not set")
	}
	n := h.N(160, 2500)
	if os.Getenv("VERIF_C15_RACE") == "0" {
		n = 0
	}
	window := 12 * time.Millisecond
	if v, err := strconv.Atoi(os.Getenv("VERIF_C15_RACE_WINDOW_MS")); err == nil && v > 0 {
		window = time.Duration(v) * time.Millisecond
	}
	for idx := 0; idx < n; idx++ {
		r := h.Begin(idx)
		if r == nil {
			continue
		}
		c15RaceCase(h, c15RaceDraw(r), window)
		h.End()
	}
	h.Close("one case = a short admitted prefix (optional grandparent q6, parent q3, sibling q5, optional child q4; cpu or cpu+memory, optional tree id, " +
		"optional namespace) followed by ONE race step: delete (of q3, rarely of q5) whose pod List launches a second request on another goroutine and waits " +
		"for it at most VERIF_C15_RACE_WINDOW_MS (12 ms): create of a child under q3 / update re-parenting q5 under q3 / informer OnQuotaAdd of a child under q3 / " +
		"update re-parenting q3 itself / create elsewhere / delete of q3's only child; label pods 1/8, failing List 1/20; then one sequential probe request; " +
		"oracle: some order of the two overlapping requests keeps the admitted objects well-formed, final dump well-formed; " +
		"non-trivial = the delete reached its pod List and the other request concerns the deleted quota; distinct by op lines")
}

func c15RaceCase(h *vHarness, pr c15RaceParams, window time.Duration) {
	base := &c15Client{}
	cl := &c15RaceClient{c15Client: base, window: window}
	qt := NewQuotaTopology(cl)
	store := map[int]*c15Spec{}

	two, tree := pr.two, pr.tree
	vec := func(a int64) [c15Dims]int64 {
		v := [c15Dims]int64{a, c15Absent, c15Absent}
		if two {
			v[1] = a
		}
		return v
	}
	mk := func(name, parent int, isParent bool, mn int64) *c15Spec {
		return &c15Spec{name: name, parent: parent, isParent: isParent, tree: tree, mn: vec(mn), mx: vec(20000)}
	}
	h.Op("echo 0")
	failed := false
	// seq sends one request sequentially (prefix / probe) with verdict + dump observations and the usual oracle
	seq := func(kind string, sp *c15Spec) bool {
		base.pods, base.fail = nil, false
		var err error
		var panicked bool
		old := store[sp.name]
		switch kind {
		case "add":
			h.Op("%s", c15OpLine("add", sp, base))
			obj := c15Object(sp)
			panicked = h.Guard(func() { err = qt.ValidAddQuota(obj) })
		case "upd":
			h.Op("%s", c15OpLine("upd", sp, base))
			obj := c15Object(sp)
			var oldObj *v1alpha1.ElasticQuota
			if old != nil {
				oldObj = c15Object(old)
			}
			panicked = h.Guard(func() { err = qt.ValidUpdateQuota(oldObj, obj) })
		case "del":
			h.Op("del %d %s", sp.name, base.envTokens())
			obj := c15Object(sp)
			if old != nil {
				obj = c15Object(old)
			}
			panicked = h.Guard(func() { err = qt.ValidDeleteQuota(obj) })
		}
		if panicked {
			h.Obs("panic")
			h.Fail("C15:panic", "sequential request %s %d panicked", kind, sp.name)
			failed = true
			return false
		}
		ok := err == nil
		h.Obs("res %d", vB(ok))
		after := c15Snapshot(qt)
		for _, l := range after.lines() {
			h.Obs("%s", l)
		}
		st, fp, what := c15RaceJudge(store, []c15RaceEv{{kind: kind, target: sp.name, sp: sp, ok: ok}})
		if fp != "" {
			h.Fail(fp, "sequential request %s %d was admitted: %s", kind, sp.name, what)
			failed = true
			return ok
		}
		for k := range store {
			delete(store, k)
		}
		for k, v := range st {
			store[k] = v
		}
		if fp, what := c15WF(after, store, true); fp != "" {
			h.Fail(fp, "after sequential request %s %d: %s", kind, sp.name, what)
			failed = true
		}
		return ok
	}

	// ---- prefix ----
	const G, P, K, X, C = 6, 3, 4, 5, 7
	top := 0
	if pr.deep {
		top = G
		seq("add", mk(G, 0, true, 12000))
	}
	p := mk(P, top, pr.pIsParent, pr.pMin)
	if pr.pNs {
		p.ns = []int{1}
	}
	seq("add", p)
	x := mk(X, top, pr.xIsParent, pr.xMin)
	if pr.xUnderRoot {
		x.parent = 0
	}
	seq("add", x)
	hasKid := false
	if pr.hasKid {
		hasKid = seq("add", mk(K, P, false, 1000))
	}
	if failed {
		return
	}

	// ---- the race step ----
	target := P
	if pr.targetX {
		target = X
	}
	variant := pr.variant
	if variant == 5 && !hasKid {
		variant = 0
	}
	if variant == 2 && !store[P].isParent {
		variant = 0
	}
	childMin := pr.childMin
	var ev c15RaceEv // the other request
	informer := false
	name := "child-add"
	switch variant {
	case 0:
		ev = c15RaceEv{kind: "add", target: C, sp: mk(C, P, pr.childIsPar, childMin)}
	case 1:
		name = "reparent-under"
		sp := *store[X]
		sp.parent = P
		ev = c15RaceEv{kind: "upd", target: X, sp: &sp}
	case 2:
		name = "informer-add"
		informer = true // the child was admitted by another replica, so it is a VALID child: q3 is marked is-parent in this variant
		ev = c15RaceEv{kind: "add", target: C, sp: mk(C, P, pr.childIsPar, childMin%3000)}
	case 3:
		name = "self-reparent"
		sp := *store[P]
		switch {
		case sp.parent != 0:
			sp.parent = 0
		case store[X].isParent && store[X].parent == 0:
			sp.parent = X
			sp.mn = vec(0)
		default:
			sp.mn = vec(pr.selfMin) // no other parent available: a min change of the quota being deleted
			name = "self-min"
		}
		ev = c15RaceEv{kind: "upd", target: P, sp: &sp}
	case 4:
		name = "add-elsewhere"
		ev = c15RaceEv{kind: "add", target: C, sp: mk(C, store[X].parent, pr.childIsPar, childMin%2000)}
	case 5:
		name = "child-delete"
		ev = c15RaceEv{kind: "del", target: K, sp: store[K]}
	}
	defer func() { cl.nested = nil }()
	h.Tag("race:variant:" + name)
	base.pods, base.fail = nil, false
	if pr.labelPod {
		base.pods = append(base.pods, c15Pod{1, 5, target})
	}
	if pr.otherPods {
		base.pods = append(base.pods, c15Pod{1, 6, target + 1}, c15Pod{0, 0, -1})
	}
	base.fail = pr.fail
	labelPods := false
	for _, pd := range base.pods {
		if pd.label == target {
			labelPods = true
		}
	}
	for _, pd := range base.pods {
		if ev.kind == "del" && pd.label == ev.target {
			ev.label = true
		}
	}
	evShape := 0
	if informer && c15SchemeRegistered {
		evShape = pr.evShape
	}
	h.Op("racedel %d %s", target, base.envTokens())
	switch {
	case informer:
		h.Op("%s", c15OpLine("evadd", ev.sp, nil))
	case ev.kind == "del":
		h.Op("del %d %s", ev.target, base.envTokens())
	default:
		h.Op("%s", c15OpLine(ev.kind, ev.sp, base))
	}
	var nestedErr error
	nestedPanic := false
	nestedOld := store[ev.target]
	nested := func() {
		defer func() {
			if rec := recover(); rec != nil {
				nestedPanic = true
			}
		}()
		switch {
		case informer:
			qt.OnQuotaAdd(c15EventObj(c15Object(ev.sp), evShape))
		case ev.kind == "add":
			nestedErr = qt.ValidAddQuota(c15Object(ev.sp))
		case ev.kind == "upd":
			nestedErr = qt.ValidUpdateQuota(c15Object(nestedOld), c15Object(ev.sp))
		case ev.kind == "del":
			nestedErr = qt.ValidDeleteQuota(c15Object(nestedOld))
		}
	}
	cl.nested, cl.armed, cl.launched, cl.overlap, cl.done = nested, true, false, false, nil
	var delErr error
	delObj := c15Object(store[target])
	delPanic := h.Guard(func() { delErr = qt.ValidDeleteQuota(delObj) })
	cl.armed = false
	if cl.launched {
		select {
		case <-cl.done:
		case <-time.After(10 * time.Second):
			h.Obs("stuck")
			h.Fail("C15:race:other-request-never-returned", "the request launched from the delete's pod List did not return within 10 s after the delete")
			return
		}
	} else {
		nested() // the delete was decided before it listed pods: the other request follows sequentially
	}
	if delPanic || nestedPanic {
		h.Obs("panic")
		h.Fail("C15:panic", "race step (delete %d ∥ %s) panicked", target, name)
		return
	}
	del := c15RaceEv{kind: "del", target: target, sp: store[target], ok: delErr == nil, label: labelPods}
	ev.ok = informer || nestedErr == nil
	h.Obs("res %d", vB(del.ok))
	if cl.launched {
		h.Obs("overlap %d", vB(cl.overlap))
		h.Tag(fmt.Sprintf("race:other-returned-during-list:%d", vB(cl.overlap)))
	} else {
		h.Tag("race:delete-decided-before-list")
	}
	if informer {
		h.Obs("ev")
	} else {
		h.Obs("res %d", vB(ev.ok))
	}
	h.Tag("race:del:" + c15ErrKind(delErr))
	if !informer {
		h.Tag("race:" + name + ":" + c15ErrKind(nestedErr))
	}
	after := c15Snapshot(qt)
	for _, l := range after.lines() {
		h.Obs("%s", l)
	}
	if cl.launched && (ev.target == target || (ev.sp != nil && ev.sp.parent == target)) {
		h.Nontrivial()
	}

	// ---- oracle of the race step ----
	checkDump := true
	if informer {
		// the event tells this replica that the child was admitted (by another replica).  If the handler RETURNED before the
		// delete's verdict, the replica knew of the child when it admitted the delete.  An event that arrives after the
		// verdict is a late event (outside the property, see level_note): nothing is demanded then.
		switch {
		case cl.overlap && del.ok && ev.sp.parent == target:
			h.Fail("C15:delete-guard:concurrent-informer-add", "delete of quota %d admitted although OnQuotaAdd of its child %d had returned before the verdict", target, ev.target)
			return
		case del.ok && ev.sp.parent == target:
			h.Tag("race:late-informer-add-after-delete")
			checkDump = false
			delete(store, target)
			store[ev.target] = ev.sp
		default:
			st, fp, what := c15RaceJudge(store, []c15RaceEv{ev, del})
			if fp != "" {
				h.Fail(fp+":concurrent-informer-add", "delete %d ∥ OnQuotaAdd %d: %s", target, ev.target, what)
				return
			}
			store = st
		}
	} else {
		orders := [][]c15RaceEv{{del, ev}}
		if cl.launched {
			// the two requests overlapped in time: either order is a legitimate explanation of the two verdicts
			if cl.overlap {
				orders = [][]c15RaceEv{{ev, del}, {del, ev}}
			} else {
				orders = append(orders, []c15RaceEv{ev, del})
			}
		}
		var st map[int]*c15Spec
		fp, what := "", ""
		for i, o := range orders {
			s2, f2, w2 := c15RaceJudge(store, o)
			if f2 == "" {
				st, fp, what = s2, "", ""
				break
			}
			if i == 0 {
				fp, what = f2, w2
			}
		}
		if fp != "" {
			h.Fail(fp+":concurrent-"+name, "delete %d (admitted=%v) ∥ %s %s %d (admitted=%v, returned during the delete's pod List=%v): in no order do the admitted requests keep the admitted quotas well-formed: %s",
				target, del.ok, name, ev.kind, ev.target, ev.ok, cl.overlap, what)
			return
		}
		store = st
	}
	if checkDump {
		if fp, what := c15WF(after, store, true); fp != "" {
			h.Fail(fp+":concurrent-"+name, "after delete %d ∥ %s: %s", target, name, what)
			return
		}
	}
	if !checkDump {
		return
	}
	// ---- one sequential probe: re-create the deleted quota / hang a child under it / delete it again ----
	switch pr.probe {
	case 0:
		if store[P] == nil {
			seq("add", mk(P, top, true, 4000))
		} else {
			seq("del", store[P])
		}
	case 1:
		seq("add", mk(8, P, false, 0))
	case 2:
		if sp := store[X]; sp != nil {
			sp2 := *sp
			sp2.parent = P
			if sp.parent == P {
				sp2.parent = top
			}
			seq("upd", &sp2)
		}
	}
}
