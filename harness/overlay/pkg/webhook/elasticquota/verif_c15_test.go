//go:build verif

package elasticquota

import (
	"context"
	"encoding/json"
	"fmt"
	"os"
	"reflect"
	"sort"
	"strings"
	"testing"
	"time"

	corev1 "k8s.io/api/core/v1"
	apiequality "k8s.io/apimachinery/pkg/api/equality"
	"k8s.io/apimachinery/pkg/api/resource"
	metav1 "k8s.io/apimachinery/pkg/apis/meta/v1"
	"k8s.io/apimachinery/pkg/apis/meta/v1/unstructured"
	"k8s.io/apimachinery/pkg/runtime"
	"k8s.io/apimachinery/pkg/runtime/schema"
	"k8s.io/apimachinery/pkg/types"
	clientgoscheme "k8s.io/client-go/kubernetes/scheme"
	toolscache "k8s.io/client-go/tools/cache"
	ctrlcache "sigs.k8s.io/controller-runtime/pkg/cache"
	"sigs.k8s.io/controller-runtime/pkg/cache/informertest"
	"sigs.k8s.io/controller-runtime/pkg/client"
	"sigs.k8s.io/controller-runtime/pkg/controller/controllertest"

	"github.com/koordinator-sh/koordinator/apis/extension"
	"github.com/koordinator-sh/koordinator/apis/thirdparty/scheduler-plugins/pkg/apis/scheduling/v1alpha1"
	"github.com/koordinator-sh/koordinator/pkg/features"
	utilfeature "github.com/koordinator-sh/koordinator/pkg/util/feature"
	"github.com/koordinator-sh/koordinator/pkg/util/fieldindex"
)

// c15TB: the testing.TB the feature-gate helper reports a failed Set to (it only calls Errorf).
type c15TB struct {
	testing.TB // nil: the helper calls nothing else
	h          *vHarness
}

func (b c15TB) Errorf(format string, a ...interface{}) {
	b.h.Fail("C15:harness:feature-gate", format, a...)
}

// C15 harness: one case = one history of create / update / delete admission requests against the
// REAL quotaTopology (ValidAddQuota / ValidUpdateQuota / ValidDeleteQuota).  After every request the
// verdict and the recorded topology (quotaInfoMap, quotaHierarchyInfo, namespaceToQuotaMap) are
// emitted as canonical integer observations, and the property oracle (an independent evaluation of
// well-formedness on that dump) is run.  Round 2: the informer event of every ADMITTED request is delivered to the real
// handlers (OnQuotaAdd / OnQuotaUpdate / OnQuotaDelete) right after the admission (op line `echo 1`; Model/C15Inf.lean),
// two replicas wired through the real NewQuotaInformer share one simulated API server (TestVerifC15Replicas*), and the
// oracle also judges every admission verdict against its own bookkeeping of admitted objects (c15Judge).
// Round 7: the min-sum clause is also demanded as a TRANSITION clause that exempts only what checkMinQuotaValidate exempts
// (c15StepMinSum: a checked request without a bypass label fits under its parent WHATEVER labels the parent carries), and
// the history streams contain updates that are ADMITTED BUT NOT PERSISTED, after which the next request for that quota
// carries a stale OldObject (the recorded info wins; the dumped topology must stay well-formed).

const c15Dims = 3

var c15DimNames = [c15Dims]corev1.ResourceName{corev1.ResourceCPU, corev1.ResourceMemory, "nvidia.com/gpu"}

const c15Absent = int64(-1 << 40) // "key absent" inside the harness (never a generated value)

type c15Spec struct {
	name, parent    int
	isParent        bool
	tree            int
	force, treeRoot bool
	swNeg           bool
	ns              []int
	mn, mx          [c15Dims]int64
	// RAW shapes of the object (glue that the model decodes: Model/C15.lean Raw / decodeQI); zero values = canonical
	parentShape                    int  // "parent = root" (or "" on the root-named object): 0 written out, 1 label absent, 2 label ""
	ipShape, forceShape, rootShape int  // spelling of a FALSE boolean label, see c15BoolCode
	swShape                        int  // shared-weight annotation: 0 absent, 1 negative, 2 malformed JSON, 3 non-negative, 4 ""
	nsShape                        int  // namespaces annotation: 0 canonical (absent when empty), 1 other spelling, 2 malformed (ns must be nil)
	mnNil, mxNil                   bool // a key-less Spec.Min / Spec.Max is a nil map instead of an empty one
}

// label value codes of the op line: 0 "false", 1 "true", 2 label absent, 3 another string ("True")
func c15BoolCode(v bool, shape int, falseCodes [3]int) int {
	if v {
		return 1
	}
	return falseCodes[shape%3]
}
func (sp *c15Spec) ipCode() int    { return c15BoolCode(sp.isParent, sp.ipShape, [3]int{0, 2, 3}) }
func (sp *c15Spec) forceCode() int { return c15BoolCode(sp.force, sp.forceShape, [3]int{2, 0, 3}) }
func (sp *c15Spec) rootCode() int  { return c15BoolCode(sp.treeRoot, sp.rootShape, [3]int{2, 0, 3}) }

// parentCode: 98 = label absent, 99 = label "", else the parent's name id
func (sp *c15Spec) parentCode() int {
	if (sp.parent == 0 && sp.name != 0) || (sp.parent == c15NoParent && sp.name == 0) {
		switch sp.parentShape % 3 {
		case 1:
			return 98
		case 2:
			return 99
		}
		if sp.parent == c15NoParent {
			return 99
		}
	}
	return sp.parent
}
func (sp *c15Spec) swCode() int {
	if sp.swNeg && sp.swShape != 1 && sp.swShape != 2 {
		return 1
	}
	return sp.swShape
}

func c15SetBoolLabel(q *v1alpha1.ElasticQuota, key string, code int) {
	switch code {
	case 0:
		q.Labels[key] = "false"
	case 1:
		q.Labels[key] = "true"
	case 3:
		q.Labels[key] = "True"
	}
}

// c15NoParent: the empty parent name ("") that only the root-named object can carry
// (extension.GetParentQuotaName returns "" for it); used by the root-add stream only.
const c15NoParent = 99

func c15Name(id int) string {
	switch id {
	case c15NoParent:
		return ""
	case 0:
		return extension.RootQuotaName
	case 1:
		return extension.SystemQuotaName
	case 2:
		return extension.DefaultQuotaName
	}
	return fmt.Sprintf("q%d", id)
}

func c15NameID(s string) int {
	switch s {
	case "":
		return c15NoParent
	case extension.RootQuotaName:
		return 0
	case extension.SystemQuotaName:
		return 1
	case extension.DefaultQuotaName:
		return 2
	}
	var id int
	if _, err := fmt.Sscanf(s, "q%d", &id); err != nil {
		return -1
	}
	return id
}

func c15NsName(id int) string { return fmt.Sprintf("ns%d", id) }
func c15NsID(s string) int {
	var id int
	if _, err := fmt.Sscanf(s, "ns%d", &id); err != nil {
		return -1
	}
	return id
}
func c15TreeName(id int) string {
	if id == 0 {
		return ""
	}
	return fmt.Sprintf("t%d", id)
}
func c15TreeID(s string) int {
	if s == "" {
		return 0
	}
	var id int
	if _, err := fmt.Sscanf(s, "t%d", &id); err != nil {
		return -1
	}
	return id
}

// per-history representation choices (glue): how "parent = root" and an empty list are written.
type c15Repr struct {
	rootAsEmptyLabel bool
	emptyListAsNil   bool
}

func c15RL(v [c15Dims]int64, nilWhenEmpty bool) corev1.ResourceList {
	n := 0
	for _, x := range v {
		if x != c15Absent {
			n++
		}
	}
	if n == 0 && nilWhenEmpty {
		return nil
	}
	l := corev1.ResourceList{}
	for k, x := range v {
		if x != c15Absent {
			// amounts are EXACT milli-units on both sides of the harness/model boundary (cpu "1500m", memory "1.5Gi" are
			// not whole units; Quantity.Value() would round them up)
			f := resource.DecimalSI
			if k == 1 {
				f = resource.BinarySI
			}
			l[c15DimNames[k]] = *resource.NewMilliQuantity(x, f)
		}
	}
	return l
}

func c15Object(sp *c15Spec) *v1alpha1.ElasticQuota {
	q := &v1alpha1.ElasticQuota{
		TypeMeta:   metav1.TypeMeta{Kind: "ElasticQuota", APIVersion: "scheduling.sigs.k8s.io/v1alpha1"},
		ObjectMeta: metav1.ObjectMeta{Name: c15Name(sp.name), Namespace: "default", Labels: map[string]string{}, Annotations: map[string]string{}},
	}
	switch pc := sp.parentCode(); pc {
	case 98:
	case 99:
		q.Labels[extension.LabelQuotaParent] = ""
	default:
		q.Labels[extension.LabelQuotaParent] = c15Name(pc)
	}
	c15SetBoolLabel(q, extension.LabelQuotaIsParent, sp.ipCode())
	if sp.tree != 0 {
		q.Labels[extension.LabelQuotaTreeID] = c15TreeName(sp.tree)
	}
	c15SetBoolLabel(q, extension.LabelAllowForceUpdate, sp.forceCode())
	c15SetBoolLabel(q, extension.LabelQuotaIsRoot, sp.rootCode())
	names := make([]string, len(sp.ns))
	for i, n := range sp.ns {
		names[i] = c15NsName(n)
	}
	b, _ := json.Marshal(names)
	switch sp.nsShape {
	case 0:
		if len(sp.ns) > 0 {
			q.Annotations[extension.AnnotationQuotaNamespaces] = string(b)
		}
	case 1:
		q.Annotations[extension.AnnotationQuotaNamespaces] = " " + string(b)
	case 2:
		q.Annotations[extension.AnnotationQuotaNamespaces] = "{"
	}
	switch sp.swCode() {
	case 1:
		q.Annotations[extension.AnnotationSharedWeight] = `{"cpu":"-1"}`
	case 2:
		q.Annotations[extension.AnnotationSharedWeight] = `{`
	case 3:
		q.Annotations[extension.AnnotationSharedWeight] = `{"cpu":"1"}`
	case 4:
		q.Annotations[extension.AnnotationSharedWeight] = ""
	}
	q.Spec.Min = c15RL(sp.mn, sp.mnNil)
	q.Spec.Max = c15RL(sp.mx, sp.mxNil)
	return q
}

// ---- pod environment: a stub client that only answers List for pods ----

// a pod of the environment: nsKind 0 = an unrelated namespace, 1 = namespace ns<nsID>, 2 = the namespace named
// like quota <nsID>; label = quota-name label (-1: none)
type c15Pod struct{ nsKind, nsID, label int }

func (p c15Pod) ns() string {
	switch p.nsKind {
	case 1:
		return c15NsName(p.nsID)
	case 2:
		return c15Name(p.nsID)
	}
	return "elsewhere"
}
func (p c15Pod) quotaLabel() string {
	if p.label < 0 {
		return ""
	}
	return c15Name(p.label)
}

type c15Client struct {
	client.Client // nil: any other call panics (none is made by the anchored code)
	pods          []c15Pod
	lists         int
	fail          bool // every List fails (apiserver error)
	// round 8: attrs != 0 draws phase x {bound, unbound} of pod i from it (c15PodAttr); 0 = Running on a node.
	// The property speaks of "a quota with pods": neither attribute may change a verdict.
	attrs uint64
}

// c15PodAttr: phase (0 Pending, 1 Running, 2 Succeeded, 3 Failed, 4 Unknown) and bound (spec.nodeName set) of pod i.
func (c *c15Client) podAttr(i int) (phase int, bound bool) {
	if c.attrs == 0 {
		return 1, true
	}
	x := (&vRand{s: c.attrs + uint64(i)*0xD1B54A32D192ED03}).next()
	return int(x % 5), (x>>8)%2 == 0
}

var c15Phases = [5]corev1.PodPhase{corev1.PodPending, corev1.PodRunning, corev1.PodSucceeded, corev1.PodFailed, corev1.PodUnknown}

func (c *c15Client) attrTokens() string {
	s := ""
	for i := range c.pods {
		ph, b := c.podAttr(i)
		s += fmt.Sprintf(" %d %d", ph, vB(b))
	}
	return s
}

// c15RealPodIndex: the client.IndexerFunc koord-manager REALLY registers for (corev1.Pod, "label.quotaName"),
// captured by running pkg/util/fieldindex.RegisterFieldIndexes (cmd/koord-manager/main.go) against a recording
// cache; the stub client answers field-selector Lists through it (ValidDeleteQuota and hasQuotaBoundedPods find a
// quota's pods only through that index).  nil = koord-manager registers no such index (the List then fails, as the
// informer cache's List does for an unknown index).
type c15RecCache struct {
	ctrlcache.Cache
	funcs map[string]client.IndexerFunc
}

func (c *c15RecCache) IndexField(_ context.Context, obj client.Object, field string, f client.IndexerFunc) error {
	c.funcs[fmt.Sprintf("%T/%s", obj, field)] = f
	return nil
}

var c15RealPodIndex = func() client.IndexerFunc {
	rec := &c15RecCache{funcs: map[string]client.IndexerFunc{}}
	if err := fieldindex.RegisterFieldIndexes(rec); err != nil {
		return nil
	}
	return rec.funcs["*v1.Pod/label.quotaName"]
}()

// c15Env is the part of the environment a request sees; it is written on the op line and decoded by the model.
func (c *c15Client) envTokens() string {
	s := fmt.Sprintf("%d %d", vB(c.fail), len(c.pods))
	for _, p := range c.pods {
		l := "_"
		if p.label >= 0 {
			l = fmt.Sprint(p.label)
		}
		s += fmt.Sprintf(" %d %d %s", p.nsKind, p.nsID, l)
	}
	return s
}

func (c *c15Client) List(_ context.Context, list client.ObjectList, opts ...client.ListOption) error {
	lo := &client.ListOptions{}
	for _, o := range opts {
		o.ApplyToList(lo)
	}
	pl, ok := list.(*corev1.PodList)
	if !ok {
		return fmt.Errorf("c15Client: unexpected list type %T", list)
	}
	c.lists++
	pl.Items = nil
	if c.fail {
		return fmt.Errorf("c15Client: injected list failure")
	}
	for i, p := range c.pods {
		if lo.Namespace != "" && p.ns() != lo.Namespace {
			continue
		}
		pod := corev1.Pod{ObjectMeta: metav1.ObjectMeta{Name: fmt.Sprintf("pod%d", i), Namespace: p.ns(), Labels: map[string]string{}}}
		if p.label >= 0 {
			pod.Labels[extension.LabelQuotaName] = p.quotaLabel()
		}
		ph, bound := c.podAttr(i)
		pod.Status.Phase = c15Phases[ph]
		if bound {
			pod.Spec.NodeName = "node0"
		}
		match := true
		if lo.FieldSelector != nil {
			for _, rq := range lo.FieldSelector.Requirements() {
				if rq.Field != "label.quotaName" {
					match = false
					continue
				}
				if c15RealPodIndex == nil {
					return fmt.Errorf("c15Client: Index with name field:label.quotaName does not exist")
				}
				// the informer cache's index lookup: the pod is listed iff the REAL indexer func yields the value
				hit := false
				for _, key := range c15RealPodIndex(pod.DeepCopy()) {
					if key == rq.Value {
						hit = true
					}
				}
				if !hit {
					match = false
				}
			}
		}
		if !match {
			continue
		}
		pl.Items = append(pl.Items, pod)
	}
	return nil
}

// ---- canonical dump of the implementation's recorded topology ----

type c15Q struct {
	name, parent    int
	isParent        bool
	tree            int
	force, treeRoot bool
	mn, mx          [c15Dims]int64
}

type c15Dump struct {
	qs   map[int]*c15Q
	kids map[int][]int // hierarchy key -> sorted children
	ns   map[int]int
	bad  string // something not expressible with the small-integer universe
}

func c15ReadRL(l corev1.ResourceList, bad *string) [c15Dims]int64 {
	var v [c15Dims]int64
	for k := range v {
		v[k] = c15Absent
	}
	for key, q := range l {
		found := false
		for k, dn := range c15DimNames {
			if dn == key {
				v[k] = q.MilliValue() // exact: no generated amount is finer than one milli-unit
				if resource.NewMilliQuantity(v[k], q.Format).Cmp(q) != 0 {
					*bad = "amount of " + string(key) + " is not a whole number of milli-units"
				}
				found = true
			}
		}
		if !found {
			*bad = "unknown resource key " + string(key)
		}
	}
	return v
}

func c15Snapshot(qt *quotaTopology) *c15Dump {
	d := &c15Dump{qs: map[int]*c15Q{}, kids: map[int][]int{}, ns: map[int]int{}}
	for key, qi := range qt.quotaInfoMap {
		id := c15NameID(key)
		if id < 0 || qi == nil || qi.Name != key {
			d.bad = "info key " + key
			continue
		}
		p := c15NameID(qi.ParentName)
		t := c15TreeID(qi.TreeID)
		if p < 0 || t < 0 {
			d.bad = "parent/tree of " + key
		}
		d.qs[id] = &c15Q{name: id, parent: p, isParent: qi.IsParent, tree: t, force: qi.AllowForceUpdate, treeRoot: qi.IsTreeRoot,
			mn: c15ReadRL(qi.CalculateInfo.Min, &d.bad), mx: c15ReadRL(qi.CalculateInfo.Max, &d.bad)}
	}
	for key, set := range qt.quotaHierarchyInfo {
		id := c15NameID(key)
		if id < 0 || set == nil {
			d.bad = "hierarchy key " + key
			continue
		}
		cs := []int{}
		for c := range set {
			cid := c15NameID(c)
			if cid < 0 {
				d.bad = "hierarchy child " + c
			}
			cs = append(cs, cid)
		}
		sort.Ints(cs)
		d.kids[id] = cs
	}
	for n, q := range qt.namespaceToQuotaMap {
		nid, qid := c15NsID(n), c15NameID(q)
		if nid < 0 || qid < 0 {
			d.bad = "namespace entry " + n
			continue
		}
		d.ns[nid] = qid
	}
	return d
}

func c15Tok(v int64) string {
	if v == c15Absent {
		return "_"
	}
	return fmt.Sprint(v)
}

func c15Vec(v [c15Dims]int64) string {
	s := make([]string, c15Dims)
	for k, x := range v {
		s[k] = c15Tok(x)
	}
	return strings.Join(s, " ")
}

func c15SortedKeysQ(m map[int]*c15Q) []int {
	ks := make([]int, 0, len(m))
	for k := range m {
		ks = append(ks, k)
	}
	sort.Ints(ks)
	return ks
}

func (d *c15Dump) lines() []string {
	var out []string
	if d.bad != "" {
		out = append(out, "undumpable")
	}
	for _, k := range c15SortedKeysQ(d.qs) {
		q := d.qs[k]
		out = append(out, fmt.Sprintf("q %d %d %d %d %d %d %s %s", q.name, q.parent, vB(q.isParent), q.tree, vB(q.force), vB(q.treeRoot), c15Vec(q.mn), c15Vec(q.mx)))
	}
	hk := make([]int, 0, len(d.kids))
	for k := range d.kids {
		hk = append(hk, k)
	}
	sort.Ints(hk)
	for _, k := range hk {
		if len(d.kids[k]) == 0 {
			out = append(out, fmt.Sprintf("h %d", k))
		} else {
			out = append(out, fmt.Sprintf("h %d %s", k, vIntsI(d.kids[k])))
		}
	}
	nk := make([]int, 0, len(d.ns))
	for k := range d.ns {
		nk = append(nk, k)
	}
	sort.Ints(nk)
	for _, k := range nk {
		out = append(out, fmt.Sprintf("n %d %d", k, d.ns[k]))
	}
	return out
}

// ---- the property oracle: well-formedness of the dump, written from the property statement ----

func c15Val(x int64) int64 {
	if x == c15Absent {
		return 0
	}
	return x
}

// c15WF returns (fingerprint, message) of the first violated clause, or "".
// store = the accepted API objects (for the namespace clause); checkMinSum=false once a request
// carrying allow-force-update / is-root (which by design bypass the min-sum check) was accepted.
func c15WF(d *c15Dump, store map[int]*c15Spec, checkMinSum bool) (string, string) {
	return c15WFx(d, store, checkMinSum, nil)
}

// c15WFx: exempt != nil replaces the RECORDED bypass flags of the state-based min-sum clause by the oracle's own
// bookkeeping (c15Taint): with informer events delivered, a label-only update re-records the flags although the
// request was accepted by the unchanged-fields shortcut, i.e. without any check.
func c15WFx(d *c15Dump, store map[int]*c15Spec, checkMinSum bool, exempt map[int]bool) (string, string) {
	if d.bad != "" {
		return "C15:undumpable", d.bad
	}
	names := c15SortedKeysQ(d.qs)
	// following parent links from any quota reaches the root (no cycles); a missing parent ends the walk (next clause)
	for _, n := range names {
		cur, steps := n, 0
		for cur != 0 {
			q, ok := d.qs[cur]
			if !ok {
				break
			}
			cur = q.parent
			steps++
			if steps > len(names)+1 {
				return "C15:cycle-accepted", fmt.Sprintf("following parent links from quota %d never reaches the root", n)
			}
		}
	}
	for _, n := range names {
		q := d.qs[n]
		if n == 0 {
			return "C15:root-recorded", "root quota recorded as an ordinary quota"
		}
		if q.parent != 0 {
			p, ok := d.qs[q.parent]
			if !ok {
				return "C15:parent-missing", fmt.Sprintf("quota %d has parent %d which does not exist", n, q.parent)
			}
			if !p.isParent {
				return "C15:parent-not-marked", fmt.Sprintf("quota %d has parent %d which is not marked is-parent", n, q.parent)
			}
			if p.tree != q.tree {
				return "C15:tree-id", fmt.Sprintf("quota %d tree %d, parent %d tree %d", n, q.tree, q.parent, p.tree)
			}
			for k := 0; k < c15Dims; k++ {
				if (q.mx[k] == c15Absent) != (p.mx[k] == c15Absent) {
					return "C15:keys", fmt.Sprintf("quota %d and parent %d disagree on max dimension %d", n, q.parent, k)
				}
				if q.mn[k] != c15Absent && p.mn[k] == c15Absent {
					return "C15:keys", fmt.Sprintf("quota %d declares min dimension %d, parent %d does not", n, k, q.parent)
				}
			}
		}
		for k := 0; k < c15Dims; k++ {
			if c15Val(q.mn[k]) < 0 || c15Val(q.mx[k]) < 0 {
				return "C15:min-max", fmt.Sprintf("quota %d negative amount in dimension %d", n, k)
			}
			if q.mn[k] != c15Absent && (q.mx[k] == c15Absent || q.mn[k] > q.mx[k]) {
				return "C15:min-max", fmt.Sprintf("quota %d dimension %d min %s max %s", n, k, c15Tok(q.mn[k]), c15Tok(q.mx[k]))
			}
		}
	}
	if checkMinSum {
		for _, pn := range names {
			for k := 0; k < c15Dims; k++ {
				var sum int64
				for _, cn := range names {
					if d.qs[cn].parent == pn {
						sum += c15Val(d.qs[cn].mn[k])
					}
				}
				if sum > c15Val(d.qs[pn].mn[k]) {
					return "C15:min-sum", fmt.Sprintf("children of %d sum to %d > min %d in dimension %d", pn, sum, c15Val(d.qs[pn].mn[k]), k)
				}
			}
		}
	}
	// the same clause with the two bypasses as explicit parts (Lean: MinSum), demanded in EVERY history: a recorded
	// quota that does not carry allow-force-update / is-root covers the mins of its children that do not carry them
	byp := func(n int) bool {
		if exempt != nil {
			return exempt[n]
		}
		return d.qs[n].force || d.qs[n].treeRoot
	}
	for _, pn := range names {
		if byp(pn) {
			continue
		}
		for k := 0; k < c15Dims; k++ {
			var sum int64
			for _, cn := range names {
				if c := d.qs[cn]; c.parent == pn && !byp(cn) {
					sum += c15Val(c.mn[k])
				}
			}
			if sum > c15Val(d.qs[pn].mn[k]) {
				return "C15:min-sum", fmt.Sprintf("non-bypassing children of %d sum to %d > min %d in dimension %d", pn, sum, c15Val(d.qs[pn].mn[k]), k)
			}
		}
	}
	// children map = inverse of the parent relation; keys = root + recorded names
	want := map[int][]int{0: {}}
	for _, n := range names {
		want[n] = []int{}
	}
	for _, n := range names {
		p := d.qs[n].parent
		if _, ok := want[p]; ok {
			want[p] = append(want[p], n)
		}
	}
	if len(want) != len(d.kids) {
		return "C15:children-map", fmt.Sprintf("hierarchy has %d keys, want %d", len(d.kids), len(want))
	}
	for k, w := range want {
		g, ok := d.kids[k]
		if !ok || fmt.Sprint(g) != fmt.Sprint(w) {
			return "C15:children-map", fmt.Sprintf("children of %d recorded as %v, parent links say %v", k, g, w)
		}
	}
	// a namespace is bound to at most one quota, and the map is exactly the accepted objects' annotations
	owner := map[int]int{}
	for _, n := range names {
		sp := store[n]
		if sp == nil {
			return "C15:store-mismatch", fmt.Sprintf("quota %d recorded but never accepted", n)
		}
		for _, x := range sp.ns {
			if o, ok := owner[x]; ok && o != n {
				return "C15:namespace", fmt.Sprintf("namespace %d bound to quotas %d and %d", x, o, n)
			}
			owner[x] = n
		}
	}
	if len(store) != len(names) {
		return "C15:store-mismatch", fmt.Sprintf("%d accepted objects, %d recorded", len(store), len(names))
	}
	if len(owner) != len(d.ns) {
		return "C15:namespace", fmt.Sprintf("namespace map has %d entries, accepted objects declare %d", len(d.ns), len(owner))
	}
	for x, o := range owner {
		if d.ns[x] != o {
			return "C15:namespace", fmt.Sprintf("namespace %d maps to %d, declared by %d", x, d.ns[x], o)
		}
	}
	return "", ""
}

// ---- informer glue: events of admitted objects, the oracle's own bookkeeping ----

// The webhook's handlers convert *unstructured.Unstructured (also inside a tombstone) with client-go's scheme.Scheme.
// koord-manager registers the ElasticQuota type only in its own options.Scheme, so in the pinned tree that conversion
// fails and such events are dropped — harmless in production, where the informer is typed and never yields them; the
// harness registers the type so that the path the authors wrote is exercised.  VERIF_C15_TOMBSTONE=prod leaves the scheme
// as koord-manager has it (unstructured representations are then not generated).
var c15SchemeRegistered = func() bool {
	if os.Getenv("VERIF_C15_TOMBSTONE") == "prod" {
		return false
	}
	_ = v1alpha1.AddToScheme(clientgoscheme.Scheme)
	return true
}()

func c15Unstructured(obj *v1alpha1.ElasticQuota) *unstructured.Unstructured {
	m, err := runtime.DefaultUnstructuredConverter.ToUnstructured(obj)
	if err != nil {
		panic(err)
	}
	return &unstructured.Unstructured{Object: m}
}

// c15EventObj: the representation in which an informer hands over an object: 0 typed pointer, 1 unstructured,
// 2 (deletes only) a tombstone BY VALUE holding the unstructured object, 3 a tombstone by value holding the typed object.
func c15EventObj(obj *v1alpha1.ElasticQuota, shape int) interface{} {
	obj = obj.DeepCopy()
	switch shape {
	case 1:
		return c15Unstructured(obj)
	case 2:
		return toolscache.DeletedFinalStateUnknown{Key: obj.Namespace + "/" + obj.Name, Obj: c15Unstructured(obj)}
	case 3:
		return toolscache.DeletedFinalStateUnknown{Key: obj.Namespace + "/" + obj.Name, Obj: obj}
	}
	return obj
}

// c15Deliver hands the informer event of an ADMITTED request to the real handlers of one topology.
func c15Deliver(h *vHarness, qt *quotaTopology, kind string, oldObj, obj *v1alpha1.ElasticQuota, shape int) (panicked bool) {
	if !c15SchemeRegistered && shape != 3 {
		shape = 0
	}
	return h.Guard(func() {
		switch kind {
		case "add":
			qt.OnQuotaAdd(c15EventObj(obj, shape&1))
		case "upd":
			qt.OnQuotaUpdate(c15EventObj(oldObj, shape&1), c15EventObj(obj, shape&1))
		case "del":
			qt.OnQuotaDelete(c15EventObj(obj, shape))
		}
	})
}

// c15SameCompared: the two API objects agree in the labels parent / is-parent / tree-id, the namespaces annotation and
// the spec, compared as the API server stores them (strings, maps) — what an update request can change of the topology
// apart from the two bypass labels.  Written from the objects; does not call the implementation's quotaFieldsCopy.
func c15SameCompared(a, b *v1alpha1.ElasticQuota) bool {
	for _, k := range []string{extension.LabelQuotaParent, extension.LabelQuotaIsParent, extension.LabelQuotaTreeID} {
		if a.Labels[k] != b.Labels[k] {
			return false
		}
	}
	if a.Annotations[extension.AnnotationQuotaNamespaces] != b.Annotations[extension.AnnotationQuotaNamespaces] {
		return false
	}
	return reflect.DeepEqual(a.Spec, b.Spec)
}

// c15Book: the oracle's own bookkeeping besides the store of admitted objects.
//
//	taint[n]: the last admitted request for n that changed a compared field (or created n), or a later label-only one,
//	          carried allow-force-update / is-root — n is exempt from the min-sum clause as a parent and as a child.
//	flagsKept: no label-only update (compared fields unchanged) changed a bypass label so far = hypothesis `FlagsKept`
//	          of the Lean echo / replica theorems.
type c15Book struct {
	taint      map[int]bool
	flagsKept  bool
	noFlagDrop bool // the weaker hypothesis `NoFlagDrop`: no label-only update DROPPED a bypass label the old object carried
}

func c15NewBook() *c15Book { return &c15Book{taint: map[int]bool{}, flagsKept: true, noFlagDrop: true} }

func (b *c15Book) tags(h *vHarness) {
	h.Tag(fmt.Sprintf("hyp:flags-kept:%d", vB(b.flagsKept)))
	h.Tag(fmt.Sprintf("hyp:no-flag-drop:%d", vB(b.noFlagDrop)))
}

func (b *c15Book) admitted(kind string, old, sp *c15Spec, target int) {
	switch kind {
	case "add":
		b.taint[target] = sp.force || sp.treeRoot
	case "upd":
		same := old != nil && c15SameCompared(c15Object(old), c15Object(sp))
		if sp.force || sp.treeRoot {
			b.taint[target] = true
		} else if !same {
			b.taint[target] = false
		}
		if same && (old.force != sp.force || old.treeRoot != sp.treeRoot) {
			b.flagsKept = false
		}
		if same && ((old.force && !sp.force) || (old.treeRoot && !sp.treeRoot)) {
			b.noFlagDrop = false
		}
	case "del":
		delete(b.taint, target)
	}
}

// c15StoreDump: the admitted objects themselves as a topology (children map and namespace map derived from them), so
// that c15WFx judges the ADMISSION VERDICTS against the oracle's bookkeeping, whatever the replica recorded.
func c15StoreDump(store map[int]*c15Spec) *c15Dump {
	d := &c15Dump{qs: map[int]*c15Q{}, kids: map[int][]int{0: {}}, ns: map[int]int{}}
	names := make([]int, 0, len(store))
	for n := range store {
		names = append(names, n)
	}
	sort.Ints(names)
	for _, n := range names {
		sp := store[n]
		d.qs[n] = &c15Q{name: n, parent: sp.parent, isParent: sp.isParent, tree: sp.tree, force: sp.force, treeRoot: sp.treeRoot, mn: sp.mn, mx: sp.mx}
		d.kids[n] = []int{}
	}
	for _, n := range names {
		if _, ok := d.kids[store[n].parent]; ok {
			d.kids[store[n].parent] = append(d.kids[store[n].parent], n)
		}
		for _, x := range store[n].ns {
			if _, ok := d.ns[x]; !ok {
				d.ns[x] = n
			}
		}
	}
	return d
}

// c15PlainSumAround: counting quota n like an ordinary one, do the mins of its parent's children / of its own children
// fit (only quotas that are not otherwise exempt are looked at)?  "" = they fit.
func c15PlainSumAround(store map[int]*c15Spec, taint map[int]bool, n int) string {
	sp := store[n]
	other := func(m int) bool { return m != n && taint[m] }
	if p := store[sp.parent]; p != nil && !other(sp.parent) {
		for k := 0; k < c15Dims; k++ {
			var sum int64
			for m, c := range store {
				if c.parent == sp.parent && !other(m) {
					sum += c15Val(c.mn[k])
				}
			}
			if sum > c15Val(p.mn[k]) {
				return fmt.Sprintf("children of %d sum to %d > min %d in dimension %d", sp.parent, sum, c15Val(p.mn[k]), k)
			}
		}
	}
	for k := 0; k < c15Dims; k++ {
		var sum int64
		for m, c := range store {
			if c.parent == n && !other(m) {
				sum += c15Val(c.mn[k])
			}
		}
		if sum > c15Val(sp.mn[k]) {
			return fmt.Sprintf("children of %d sum to %d > min %d in dimension %d", n, sum, c15Val(sp.mn[k]), k)
		}
	}
	return ""
}

// c15Judge: after an admitted request was entered into the store, the admitted objects must still satisfy every clause
// (namespace bound at most once, parent exists and is marked, no cycle, keys / tree ids along edges, min sums).
func c15Judge(store map[int]*c15Spec, plainMinSum bool, book *c15Book) (string, string) {
	fp, what := c15WFx(c15StoreDump(store), store, plainMinSum, book.taint)
	if fp != "" {
		fp = strings.Replace(fp, "C15:", "C15:admitted:", 1)
	}
	return fp, what
}

// c15StepMinSum (round 7): the min-sum clause as a TRANSITION clause, exempting only what checkMinQuotaValidate exempts.
// The state-based clause (c15WFx) has to exempt a bypass-labelled record as a PARENT too, because such a quota may lower
// its own min unchecked.  A request that does NOT itself carry allow-force-update / is-root and is really checked (a
// create, or an update that changes a compared field — not the unchanged-fields shortcut) is exempt from nothing:
// once it is admitted, the mins of ALL children of its parent (bypass-labelled or not, the request included) sum to at
// most the parent's min in every dimension, WHATEVER labels the parent carries (a tree root's children are checked
// against it; only the tree root itself is not checked against ITS parent), and the mins of all its own children sum
// to at most its own new min.  Evaluated on the oracle's store of admitted objects (mins and parent links are
// compared fields, so store and recorded topology agree on them).
func c15StepMinSum(store map[int]*c15Spec, kind string, old, sp *c15Spec) (string, string) {
	if kind == "del" || sp == nil || sp.name == 0 || sp.force || sp.treeRoot {
		return "", ""
	}
	if kind == "upd" && old != nil && c15SameCompared(c15Object(old), c15Object(sp)) {
		return "", ""
	}
	if store[sp.name] != sp {
		return "", ""
	}
	sumOf := func(parent, k int) int64 {
		var sum int64
		for _, c := range store {
			if c.parent == parent {
				sum += c15Val(c.mn[k])
			}
		}
		return sum
	}
	if p := store[sp.parent]; sp.parent != 0 && p != nil {
		for k := 0; k < c15Dims; k++ {
			if sum := sumOf(sp.parent, k); sum > c15Val(p.mn[k]) {
				cls := "plain-parent"
				switch {
				case p.treeRoot:
					cls = "is-root-parent"
				case p.force:
					cls = "force-parent"
				}
				return "C15:admitted:min-sum:checked-request:" + cls, fmt.Sprintf("quota %d carries no bypass label and was checked, but the children of its parent %d (is-root %v, allow-force-update %v) now sum to %d > the parent's min %d in dimension %d",
					sp.name, sp.parent, p.treeRoot, p.force, sum, c15Val(p.mn[k]), k)
			}
		}
	}
	for k := 0; k < c15Dims; k++ {
		if sum := sumOf(sp.name, k); sum > c15Val(sp.mn[k]) {
			return "C15:admitted:min-sum:checked-request:own-children", fmt.Sprintf("quota %d carries no bypass label and was checked, but its children sum to %d > its new min %d in dimension %d",
				sp.name, sum, c15Val(sp.mn[k]), k)
		}
	}
	return "", ""
}

// ---- generator ----

type c15Gen struct {
	r        *vRand
	store    map[int]*c15Spec
	names    []int // name universe of this history
	keyset   [c15Dims]bool
	trees    bool
	flags    bool
	big      bool // min amounts of the quota being generated are drawn from the larger set (parents)
	maxNames int
	deep     bool // deep stream: deeper trees, fuller parents
	memGi    bool // memory amounts are binary-suffix fractions ("1.5Gi") instead of small decimals
	zeroEdit bool // the last mutate() made a zero-entry edit (round 4)
}

func (g *c15Gen) existing() []int {
	ks := make([]int, 0, len(g.store))
	for k := range g.store {
		ks = append(ks, k)
	}
	sort.Ints(ks)
	return ks
}

const c15QuarterGiB = int64(1) << 28

// amount: a whole amount w from the small sets below, turned into exact milli-units: w units plus, in 1/3 of the draws,
// a fractional part (1m, 200m, 500m, 501m, 900m, 999m); in memGi histories the memory dimension uses binary-suffix
// amounts instead (w quarter-GiB: 6 -> "1.5Gi"), sometimes plus 1 milli-byte / half a byte / 1 byte / 1Ki.
func (g *c15Gen) amount(k int, max bool) int64 {
	w := g.amountWhole(max)
	r := g.r
	if k == 1 && g.memGi {
		v := w * c15QuarterGiB * 1000
		if r.Chance(1, 4) {
			v += r.Pick([]int64{1, 500, 1000, 1024 * 1000})
		}
		return v
	}
	v := w * 1000
	if r.Chance(1, 3) {
		v += r.Pick([]int64{1, 200, 500, 501, 900, 999})
	}
	return v
}

func (g *c15Gen) amountWhole(max bool) int64 {
	r := g.r
	if g.deep {
		switch {
		case max:
			return r.Pick([]int64{20, 20, 30})
		case g.big:
			return r.Pick([]int64{4, 8, 10, 12, 16, 20})
		}
	}
	if max {
		return r.Pick([]int64{8, 8, 10, 20})
	}
	if g.big {
		return r.Pick([]int64{0, 4, 5, 6, 8, 8})
	}
	return r.Pick([]int64{0, 0, 1, 1, 2, 2, 3, 4})
}

func (g *c15Gen) vectors() (mn, mx [c15Dims]int64) {
	r := g.r
	for k := 0; k < c15Dims; k++ {
		mn[k], mx[k] = c15Absent, c15Absent
		in := g.keyset[k]
		if r.Chance(1, 25) {
			in = !in // key-set disagreement
		}
		if in {
			mx[k] = g.amount(k, true)
			if !r.Chance(1, 6) {
				mn[k] = g.amount(k, false)
			}
		} else if r.Chance(1, 30) {
			mn[k] = g.amount(k, false) // min key without max key
		}
		if mx[k] != c15Absent && mx[k] >= 0 {
			switch {
			case r.Chance(1, 40):
				mn[k] = mx[k] + r.Pick([]int64{1, 1, 300, 1000, 2000}) // min > max, down to one milli-unit past
			case r.Chance(1, 40):
				mx[k] = mx[k]/1000*1000 + 200 // min above max inside the same whole unit (equal ceilings): x.2 vs x.5
				mn[k] = mx[k] + 300
			case r.Chance(1, 40):
				mn[k] = mx[k] // min = max exactly
			}
		}
		if r.Chance(1, 60) {
			if r.Bool() {
				mn[k] = -1
			} else {
				mx[k] = -1
			}
		}
	}
	return
}

// aimMin moves one min of the request onto a boundary of the min-sum checks, in exact milli-units: the sum of the
// recorded children's mins minus {0, 1m, 300m} (the children must still fit: 0 fits, the others do not, and 300m
// below stays inside the same whole unit as often as not), or the room the siblings leave under the parent's min plus
// {0, 1m, 300m}.  max is raised when needed so that the min/max check does not mask the min-sum check.
func (g *c15Gen) aimMin(sp *c15Spec) {
	r := g.r
	k := r.Intn(c15Dims)
	if sp.mx[k] == c15Absent || sp.mx[k] < 0 {
		return
	}
	var kids, sibs int64
	for _, n := range g.existing() {
		c := g.store[n]
		if n == sp.name {
			continue
		}
		if c.parent == sp.name {
			kids += c15Val(c.mn[k])
		}
		if c.parent == sp.parent {
			sibs += c15Val(c.mn[k])
		}
	}
	d := r.Pick([]int64{0, 0, 1, 300})
	p := g.store[sp.parent]
	switch {
	case kids > 0 && r.Bool():
		if kids-d < 0 {
			return
		}
		sp.mn[k] = kids - d
	case p != nil && p.mn[k] != c15Absent && p.mn[k]-sibs >= 0:
		sp.mn[k] = p.mn[k] - sibs + d
	default:
		return
	}
	if sp.mn[k] > sp.mx[k] {
		sp.mx[k] = sp.mn[k]
	}
}

func (g *c15Gen) pickParent(self int) int {
	r := g.r
	ex := g.existing()
	switch {
	case len(ex) == 0 || r.Chance(2, 10):
		return 0
	case r.Chance(1, 12):
		return int(r.Pick([]int64{1, 2, 3, 4, 5, 6, 7, 8})) // anything, maybe unknown
	case self >= 0 && r.Chance(1, 8):
		return self
	}
	// prefer recorded quotas that are marked is-parent (includes self and descendants: cycle attempts)
	var ps []int
	for _, n := range ex {
		if g.store[n].isParent || r.Chance(1, 8) {
			ps = append(ps, n)
		}
	}
	if len(ps) == 0 {
		return 0
	}
	if g.deep && r.Bool() { // the deepest candidate
		best, bd := ps[0], -1
		for _, n := range ps {
			d, cur := 0, n
			for cur != 0 && d < 10 {
				if s, ok := g.store[cur]; ok {
					cur = s.parent
				} else {
					break
				}
				d++
			}
			if d > bd && n != self {
				best, bd = n, d
			}
		}
		return best
	}
	return ps[r.Intn(len(ps))]
}

func (g *c15Gen) nsList() []int {
	r := g.r
	if r.Chance(1, 2) {
		return nil
	}
	n := 1
	if r.Chance(1, 4) {
		n = 2
	}
	out := make([]int, n)
	for i := range out {
		out[i] = r.Range(1, 4)
	}
	return out
}

func (g *c15Gen) fresh(name int) *c15Spec {
	r := g.r
	sp := &c15Spec{name: name, parent: g.pickParent(-1), isParent: r.Chance(3, 5)}
	if g.deep {
		sp.isParent = r.Chance(4, 5)
	}
	g.big = sp.isParent && !r.Chance(1, 5)
	sp.mn, sp.mx = g.vectors()
	if r.Chance(1, 6) {
		g.aimMin(sp)
	} else if p := g.store[sp.parent]; p != nil && p.treeRoot && r.Bool() {
		g.aimMin(sp) // round 7: children of an is-root=true parent whose mins sit on / just past what the tree root's min leaves
	}
	sp.ns = g.nsList()
	if g.trees {
		if p, ok := g.store[sp.parent]; ok && !r.Chance(1, 8) {
			sp.tree = p.tree
		} else {
			sp.tree = r.Range(0, 2)
		}
	}
	if g.flags && r.Chance(1, 6) {
		sp.force = r.Bool()
		sp.treeRoot = !sp.force || r.Chance(1, 4)
	}
	sp.swNeg = r.Chance(1, 50)
	return sp
}

func (g *c15Gen) mutate(old *c15Spec) *c15Spec {
	r := g.r
	sp := *old
	sp.ns = append([]int(nil), old.ns...)
	sp.swNeg = r.Chance(1, 60)
	g.big = sp.isParent && !r.Chance(1, 5)
	n := 1
	if r.Chance(1, 4) {
		n = 2
	}
	for i := 0; i < n; i++ {
		switch r.Intn(12) {
		case 0, 1, 2:
			sp.parent = g.pickParent(old.name)
		case 3:
			sp.isParent = !sp.isParent
		case 4, 5:
			k := r.Intn(c15Dims)
			if sp.mx[k] != c15Absent || r.Chance(1, 6) {
				sp.mn[k] = g.amount(k, false)
				if r.Chance(1, 5) {
					sp.mn[k] = c15Absent
				}
				if sp.mx[k] != c15Absent && sp.mx[k] >= 0 && r.Chance(1, 8) {
					sp.mn[k] = sp.mx[k] + r.Pick([]int64{0, 1, 1, 300}) // at / just past max (fractional boundary)
				}
			}
		case 6:
			k := r.Intn(c15Dims)
			switch {
			case sp.mx[k] == c15Absent:
				sp.mx[k] = g.amount(k, true)
			case r.Chance(1, 3):
				sp.mx[k] = c15Absent
			default:
				sp.mx[k] = g.amount(k, true)
			}
		case 7:
			sp.ns = g.nsList()
		case 8:
			if g.trees {
				sp.tree = r.Range(0, 2)
			} else if g.flags {
				sp.force = !sp.force
			}
		case 9:
			// identical request (quotaFieldsCopy short-circuit), possibly with another flag
			if g.flags && r.Bool() {
				sp.treeRoot = !sp.treeRoot
			}
		case 10, 11:
			// overlapping edit of the namespace list: the quota keeps at least one namespace across the update
			// ([a,b] -> [b,c], [a] -> [a,c], [a,b] -> [b], [a,b] -> [b,a])
			if len(sp.ns) == 0 {
				sp.ns = g.nsList()
				break
			}
			switch r.Intn(4) {
			case 0:
				first := sp.ns[0]
				sp.ns = append(append([]int(nil), sp.ns[1:]...), r.Range(1, 5))
				if len(sp.ns) == 1 {
					sp.ns = append([]int{first}, sp.ns...)
				}
			case 1:
				sp.ns = append(sp.ns, r.Range(1, 5))
			case 2:
				if len(sp.ns) > 1 {
					sp.ns = sp.ns[1:]
				} else {
					sp.ns = append([]int{r.Range(1, 5)}, sp.ns...)
				}
			case 3:
				for i, j := 0, len(sp.ns)-1; i < j; i, j = i+1, j-1 {
					sp.ns[i], sp.ns[j] = sp.ns[j], sp.ns[i]
				}
			}
		}
	}
	if r.Chance(1, 5) {
		g.aimMin(&sp)
	} else if p := g.store[sp.parent]; p != nil && p.treeRoot && !sp.treeRoot && r.Bool() {
		g.aimMin(&sp)
	}
	// round 4: an edit that differs from the old object ONLY in a zero-valued entry (key absent <-> key present with
	// amount 0, in min or in max).  The unchanged-fields shortcut compares the Spec maps with reflect.DeepEqual, so this IS a
	// change: every check runs (a max key gained / lost against the parent's and the children's keys, a min key without
	// its max key) and an admitted one is recorded.
	g.zeroEdit = false
	if r.Chance(1, 10) {
		sp = *old
		sp.ns = append([]int(nil), old.ns...)
		k := r.Intn(c15Dims)
		switch {
		case r.Bool() && sp.mn[k] == c15Absent:
			sp.mn[k] = 0
		case sp.mn[k] == 0 && r.Bool():
			sp.mn[k] = c15Absent
		case sp.mx[k] == c15Absent:
			sp.mx[k] = 0
		case sp.mx[k] == 0:
			sp.mx[k] = c15Absent
		default:
			if sp.mn[k] == c15Absent || sp.mn[k] == 0 {
				sp.mn[k] = c15Absent
				sp.mx[k] = 0
			} else {
				sp.mn[k] = 0
			}
		}
		g.zeroEdit = true
	}
	return &sp
}

func c15OpLine(kind string, sp *c15Spec, cl *c15Client) string {
	if cl == nil {
		cl = &c15Client{}
	}
	ns := ""
	for _, n := range sp.ns {
		ns += fmt.Sprintf(" %d", n)
	}
	return fmt.Sprintf("%s %d %d %d %d %d %d %d %s %d %d%s %d %d %s %s", kind, sp.name, sp.parentCode(), sp.ipCode(), sp.tree,
		sp.forceCode(), sp.rootCode(), sp.swCode(), cl.envTokens(), sp.nsShape, len(sp.ns), ns, vB(sp.mnNil), vB(sp.mxNil), c15Vec(sp.mn), c15Vec(sp.mx))
}

// shapes draws the raw representation of a request (glue in front of the entry points).
func (g *c15Gen) shapes(sp *c15Spec, rp c15Repr) {
	r := g.r
	sp.parentShape = 0
	if rp.rootAsEmptyLabel {
		sp.parentShape = 1
	}
	if r.Chance(1, 6) {
		sp.parentShape = r.Intn(3)
	}
	sp.ipShape, sp.forceShape, sp.rootShape = 0, 0, 0
	if r.Chance(1, 6) {
		sp.ipShape = r.Intn(3)
	}
	if r.Chance(1, 8) {
		sp.forceShape = r.Intn(3)
	}
	if r.Chance(1, 8) {
		sp.rootShape = r.Intn(3)
	}
	sp.mnNil, sp.mxNil = rp.emptyListAsNil, rp.emptyListAsNil
	if r.Chance(1, 6) {
		sp.mnNil, sp.mxNil = r.Bool(), r.Bool()
	}
	if sp.swNeg {
		sp.swShape = r.Range(1, 2)
	} else {
		sp.swShape = int(r.Pick([]int64{0, 0, 0, 0, 3, 4}))
	}
	switch {
	case r.Chance(1, 30):
		sp.nsShape, sp.ns = 2, nil
	case r.Chance(1, 8):
		sp.nsShape = 1
	default:
		sp.nsShape = 0
	}
}

func c15ErrKind(err error) string {
	if err == nil {
		return "accept"
	}
	m := err.Error()
	for _, k := range []string{"already exist", "already bound", "value < 0", "min", "tree id", "isParent is forbidden", "itself or one of its descendants",
		"not find parentInfo", "IsParent is false", "keys are not", "MinQuota", "not exist", "not found", "child quotas", "child pods", "can not delete", "invalid quota"} {
		if strings.Contains(m, k) {
			return "reject:" + strings.ReplaceAll(k, " ", "-")
		}
	}
	return "reject:other"
}

func TestVerifC15(t *testing.T) {
	h := vOpen("C15")
	if h == nil {
		t.Skip("VERIF_OUT not set")
	}
	n := h.N(1500, 40000)
	for idx := 0; idx < n; idx++ {
		r := h.Begin(idx)
		if r == nil {
			continue
		}
		c15History(h, r, false)
	}
	h.Close("one history of 4-16 (thorough: up to 40) create/update/delete requests over <=6 names (incl. system/default), parents incl. self/descendants/unknown, " +
		"is-parent flips, tree ids, namespaces, min/max over 3 dimensions (absent/0/small, rare negative / min>max / key mismatch), force/is-root labels in 1/8 histories, " +
		"pod environment (incl. failing List) and raw spelling of labels/annotations/nil maps per request; namespace-list edits that keep a namespace ([a,b]->[b,c], reorder, extend, shrink); " +
		"in 7/8 of the histories the informer event of every admitted request (typed / unstructured / tombstone by value) is delivered to the real handlers right after; " +
		"round 7: 1 in 4 admitted checked updates that keep the namespaces annotation (re-parentings 5 in 8) are NOT persisted (no informer event; the next request for that quota — drawn with 1/3 while one is pending — carries the " +
		"API server's stale object as OldObject / delete object, the client editing its stale copy half of the time), children of is-root=true parents aimed at the parent's min; " +
		"round 8: label.quotaName Lists answered through the REAL indexer func of pkg/util/fieldindex, every pod with a drawn phase (5) x bound/unbound (op line podattrs), " +
		"feature gate SupportParentQuotaSubmitPod ON in 3/10 of the histories (op line gate); non-trivial = >=3 accepted requests and final depth >=2; distinct by op lines")
}

// TestVerifC15Deep: the same history generator biased towards deep trees with full parents (min-sum, keys and tree-id
// checks against parent AND children) and towards the bypass labels (state-based min-sum clause).
func TestVerifC15Deep(t *testing.T) {
	h := vOpen("C15")
	if h == nil {
		t.Skip("VERIF_OUT not set")
	}
	n := h.N(500, 15000)
	for idx := 0; idx < n; idx++ {
		r := h.Begin(idx)
		if r == nil {
			continue
		}
		c15History(h, r, true)
	}
	h.Close("deep stream: histories of 12-30 requests over <=7 names, 4/5 quotas marked is-parent, parents drawn preferably among the deepest recorded quotas, " +
		"larger parent mins, force/is-root labels in 1/2 histories, tree ids in 1/2; non-trivial = >=3 accepted requests and final depth >=2")
}

// c15History runs one history (one case, already begun) against the real topology.
func c15History(h *vHarness, r *vRand, deep bool) {
	{
		// round 8: a side PRNG split off the case PRNG (the main draw sequence, hence every earlier history, is unchanged)
		// draws (a) the feature gate SupportParentQuotaSubmitPod (alpha, default off; ON in 3/10 of the histories, set
		// with the repo's feature-gate test helper and restored after the case) and (b) phase x {bound, unbound} of every
		// pod of the environment.  The anchored quota-admission code reads the gate nowhere (only ValidateAddPod does), so
		// model and oracle are the same on both sides of it: every WF clause incl. "a quota with children is marked
		// is-parent" is demanded unconditionally, and an is-parent flip to true with bound pods stays rejected.
		side := &vRand{s: r.s ^ 0x0C15E8A5C15E8A5D}
		gateOn := side.Intn(10) < 3
		h.Op("gate %d", vB(gateOn))
		h.Tag(fmt.Sprintf("gate:SupportParentQuotaSubmitPod:%d", vB(gateOn)))
		defer utilfeature.SetFeatureGateDuringTest(c15TB{h: h}, utilfeature.DefaultMutableFeatureGate, features.SupportParentQuotaSubmitPod, gateOn)()
		g := &c15Gen{r: r, store: map[int]*c15Spec{}, deep: deep}
		// history-level choices
		switch r.Intn(4) {
		case 0:
			g.keyset = [c15Dims]bool{true, false, false}
		case 1:
			g.keyset = [c15Dims]bool{true, true, false}
		case 2:
			g.keyset = [c15Dims]bool{true, true, true}
		default:
			g.keyset = [c15Dims]bool{r.Bool(), r.Bool(), r.Bool()}
		}
		g.trees = r.Chance(1, 4)
		g.flags = r.Chance(1, 8)
		g.memGi = r.Chance(1, 4)
		g.maxNames = r.Range(2, 5)
		rp := c15Repr{rootAsEmptyLabel: r.Bool(), emptyListAsNil: r.Bool()}
		steps := r.Range(4, 16)
		if h.Tier == "thorough" && r.Chance(1, 5) {
			steps = r.Range(15, 40)
		}
		if deep {
			g.trees = r.Bool()
			g.flags = r.Bool()
			g.maxNames = r.Range(4, 7)
			steps = r.Range(12, 30)
		}
		cl := &c15Client{}
		qt := NewQuotaTopology(cl)
		minSumApplies := true
		accepted, reparents, failed := 0, 0, false
		// informer glue: in 7/8 of the histories the informer event of every ADMITTED request reaches the handlers of this
		// replica right after the admission (the realistic timing for the replica that admitted it); in 1/8 the events are
		// late (admission-only history, as before the extension)
		echo := !r.Chance(1, 8)
		h.Op("echo %d", vB(echo))
		h.Tag(fmt.Sprintf("history:echo:%d", vB(echo)))
		book := c15NewBook()
		nsKeptAcrossUpdate, isRootBelowRoot := false, false
		// round 7 — ADMITTED BUT NOT PERSISTED: an update the webhook admitted may never reach the API server's store
		// (a later admission plugin denies it, the write loses a conflict, the client gives up): no informer event, and
		// the NEXT request for that quota carries the object the API server still stores as OldObject.  stale[n] = that
		// stored object while it differs from the webhook's last admitted (= recorded) one.  The oracle's truth stays the
		// recorded topology: g.store holds the last ADMITTED object of every name (the recorded info wins over OldObject).
		stale := map[int]*c15Spec{}
		staleSeen, stalePending := false, false

		for st := 0; st < steps && !failed; st++ {
			ex := g.existing()
			before := c15Snapshot(qt)
			// pod environment for this request
			kind := "add"
			switch {
			case len(ex) == 0 || (len(ex) < g.maxNames && r.Chance(1, 2)):
				kind = "add"
			case r.Chance(1, 5):
				kind = "del"
			default:
				kind = "upd"
			}
			var target int
			pickExisting := len(ex) > 0 && !r.Chance(1, 12)
			if kind == "add" {
				pickExisting = len(ex) > 0 && r.Chance(1, 12)
			}
			if pickExisting {
				target = ex[r.Intn(len(ex))]
			} else {
				target = 3 + r.Intn(g.maxNames+1)
				if kind == "add" {
					// prefer an unused name
					for try := 0; try < 6 && g.store[target] != nil; try++ {
						target = 3 + r.Intn(g.maxNames+1)
					}
				}
				if r.Chance(1, 15) {
					target = r.Range(1, 2) // system / default quota
				}
				if kind != "add" && r.Chance(1, 10) {
					target = 0
				}
			}
			if len(stale) > 0 && r.Chance(1, 3) {
				// follow up on a quota whose stored object lags behind the admitted one: the next request carries it
				ks := make([]int, 0, len(stale))
				for k := range stale {
					ks = append(ks, k)
				}
				sort.Ints(ks)
				target = ks[r.Intn(len(ks))]
				kind = "upd"
				if r.Chance(1, 6) {
					kind = "del"
				}
			}
			cl.pods = nil
			old := g.store[target]
			if r.Chance(1, 8) {
				cl.pods = append(cl.pods, c15Pod{1, r.Range(5, 6), target})
			}
			if r.Chance(1, 10) {
				cl.pods = append(cl.pods, c15Pod{2, target, -1})
			}
			if old != nil && len(old.ns) > 0 && r.Chance(1, 5) {
				cl.pods = append(cl.pods, c15Pod{1, old.ns[r.Intn(len(old.ns))], -1})
			}
			if r.Chance(1, 3) {
				cl.pods = append(cl.pods, c15Pod{1, r.Range(5, 6), target + 1}, c15Pod{0, 0, -1})
			}
			labelPods, boundPods := false, false
			for _, p := range cl.pods {
				if p.label == target {
					labelPods, boundPods = true, true
				}
				if p.ns() == c15Name(target) {
					boundPods = true
				}
				if old != nil {
					for _, x := range old.ns {
						if p.ns() == c15NsName(x) {
							boundPods = true
						}
					}
				}
			}
			_ = boundPods // the model decodes the pod environment itself (hasBoundPods); kept for the tags below
			cl.attrs = side.next() | 1
			if len(cl.pods) > 0 {
				h.Op("podattrs%s", cl.attrTokens()) // (phase, bound) per pod; no input of the model: "a quota with pods"
			}
			for i, p := range cl.pods {
				if p.label == target {
					ph, b := cl.podAttr(i)
					h.Tag(fmt.Sprintf("env:%s:label-pod:phase-%d:bound-%d", kind, ph, vB(b)))
				}
			}
			cl.fail = r.Chance(1, 30)
			if cl.fail {
				h.Tag("env:list-fails")
			}

			var err error
			var sp *c15Spec
			var evOld, evObj *v1alpha1.ElasticQuota // the objects of the informer event, should the request be admitted
			var staleOld *c15Spec                   // upd: the OldObject of the request (the API server's stored object)
			noPersist := false                      // upd: if admitted, the new object never reaches the API server's store
			panicked := false
			switch kind {
			case "add":
				sp = g.fresh(target)
				if sp.name == 0 { // hypothesis NotRootAdd of the Lean theorems (root-named creates: TestVerifC15RootAdd)
					h.Fail("C15:assumption-not-root-add", "main stream generated a create request named root")
				}
				g.shapes(sp, rp)
				// 1/3 of the creates pass the mutating admission (fillQuotaDefaultInformation) first, as in the real webhook chain
				viaFill := r.Chance(1, 3)
				if viaFill {
					h.Tag("add:via-mutating")
					if g.trees && r.Bool() {
						sp.tree = 0 // leave the tree id to the mutating step (inherited from the parent)
					}
					h.Op("%s", c15OpLine("madd", sp, cl))
				} else {
					h.Op("%s", c15OpLine("add", sp, cl))
				}
				obj := c15Object(sp)
				evObj = obj
				panicked = h.Guard(func() {
					if viaFill {
						if err = qt.fillQuotaDefaultInformation(obj); err != nil {
							h.Tag("add:denied-by-mutating")
							return
						}
					}
					err = qt.ValidAddQuota(obj)
				})
				if viaFill && !panicked && err == nil {
					// the accepted API object is the mutated one: parent label written out, tree id inherited from the parent
					sp.parentShape = 0
					if t := c15TreeID(obj.Labels[extension.LabelQuotaTreeID]); t != sp.tree {
						h.Tag("add:tree-id-inherited")
						sp.tree = t
					}
				}
			case "upd":
				apiOld := old // the object the API server stores = OldObject of the request
				if so := stale[target]; so != nil && old != nil {
					apiOld = so
				}
				if old != nil {
					if apiOld != old && r.Bool() {
						sp = g.mutate(apiOld) // the client edits the copy it read from the API server
					} else {
						sp = g.mutate(old)
					}
					if g.zeroEdit {
						h.Tag("upd:zero-entry-edit")
					}
				} else {
					sp = g.fresh(target)
				}
				if old == nil || !r.Chance(1, 3) { // otherwise: keep the old object's spelling (pure content change / identical request)
					g.shapes(sp, rp)
				} else if sp.nsShape == 2 {
					sp.ns = nil // the annotation stays malformed
				}
				if old != nil {
					nobj, robj := c15Object(sp), c15Object(old)
					if apiOld != old {
						// the model's old object is the recorded one: the stale OldObject is used only where it takes the
						// same way through the unchanged-fields shortcut (otherwise the earlier update is taken to have
						// reached the store late, before this request)
						if c15SameCompared(c15Object(apiOld), nobj) != c15SameCompared(robj, nobj) {
							delete(stale, target)
							apiOld = old
							h.Tag("upd:stale-old-object:persisted-late")
						} else {
							staleSeen = true
							h.Tag("upd:stale-old-object")
							// hypotheses of stale_old_object_is_recorded_update (Props/C15.lean §21), by construction
							if fmt.Sprint(apiOld.ns) != fmt.Sprint(old.ns) || apiOld.nsShape != old.nsShape {
								h.Fail("C15:assumption-stale-old-object", "generated a stale OldObject of quota %d whose namespaces annotation differs from the recorded object's", target)
							}
							if apiOld.parent != old.parent {
								stalePending = true
								h.Tag("upd:stale-old-object:other-parent-than-recorded")
							}
							if apiOld.isParent != old.isParent || apiOld.tree != old.tree {
								h.Tag("upd:stale-old-object:other-is-parent-or-tree-than-recorded")
							}
						}
					}
					// 1 in 4 checked updates that keep the namespaces annotation (re-parentings: 5 in 8) will not be persisted if admitted
					if (r.Chance(1, 4) || (old.parent != sp.parent && r.Bool())) && fmt.Sprint(old.ns) == fmt.Sprint(sp.ns) && old.nsShape == sp.nsShape &&
						!c15SameCompared(robj, nobj) && !c15SameCompared(c15Object(apiOld), nobj) {
						noPersist = true
					}
				}
				staleOld = apiOld
				h.Tag(fmt.Sprintf("shape:ns-annotation:%d", sp.nsShape))
				h.Tag(fmt.Sprintf("shape:shared-weight:%d", sp.swCode()))
				h.Tag(fmt.Sprintf("shape:is-parent-label:%d", sp.ipCode()))
				if sp.parentCode() >= 98 {
					h.Tag(fmt.Sprintf("shape:parent-label:%d", sp.parentCode()))
				}
				if noPersist && echo {
					h.Op("echo 0") // no informer event for an object that is never stored
				}
				h.Op("%s", c15OpLine("upd", sp, cl))
				if noPersist && echo {
					h.Op("echo 1")
				}
				obj := c15Object(sp)
				var oldObj *v1alpha1.ElasticQuota
				if staleOld != nil {
					oldObj = c15Object(staleOld)
				}
				evOld, evObj = oldObj, obj
				panicked = h.Guard(func() { err = qt.ValidUpdateQuota(oldObj, obj) })
			case "del":
				h.Op("del %d %s", target, cl.envTokens())
				var obj *v1alpha1.ElasticQuota
				if so := stale[target]; so != nil && old != nil {
					obj = c15Object(so) // the delete request carries the object the API server stores
					staleSeen = true
					h.Tag("del:stale-object")
				} else if old != nil {
					obj = c15Object(old)
				} else {
					obj = c15Object(&c15Spec{name: target, mn: [c15Dims]int64{c15Absent, c15Absent, c15Absent}, mx: [c15Dims]int64{c15Absent, c15Absent, c15Absent}})
				}
				evObj = obj
				panicked = h.Guard(func() { err = qt.ValidDeleteQuota(obj) })
			}
			if echo && !noPersist && !panicked && err == nil && (kind != "upd" || evOld != nil) {
				// the informer event of the admitted object: typed pointer, sometimes unstructured; a delete sometimes as a
				// tombstone by value
				shape := 0
				if r.Chance(1, 6) {
					shape = 1
				}
				if kind == "del" && r.Chance(1, 3) {
					shape = r.Range(2, 3) // tombstone by value holding the unstructured / the typed object
				}
				h.Tag(fmt.Sprintf("event:%s:shape%d", kind, shape))
				panicked = c15Deliver(h, qt, kind, evOld, evObj, shape)
			}
			if sp != nil { // amount classes of the request (exact milli-units vs. what a whole-unit rounding would see)
				ceil := func(x int64) int64 { return (x + 999) / 1000 }
				for k := 0; k < c15Dims; k++ {
					a, b := sp.mn[k], sp.mx[k]
					if a == c15Absent || b == c15Absent || a < 0 || b < 0 {
						continue
					}
					switch {
					case a > b && ceil(a) == ceil(b):
						h.Tag("amount:min-over-max-same-ceiling")
					case a == b+1:
						h.Tag("amount:min-one-milli-past-max")
					case a == b:
						h.Tag("amount:min-equals-max")
					}
					if a%1000 != 0 || b%1000 != 0 {
						h.Tag("amount:fractional")
					}
				}
			}
			if panicked {
				h.Obs("panic")
				h.Fail("C15:panic", "request %d (%s) panicked", st, kind)
				failed = true
				break
			}
			ok := err == nil
			h.Obs("res %d", vB(ok))
			h.Tag(kind + ":" + c15ErrKind(err))
			if sp != nil && !sp.force && !sp.treeRoot {
				if p := g.store[sp.parent]; p != nil && p.treeRoot && p.isParent {
					h.Tag("under-is-root-parent:" + kind + ":" + c15ErrKind(err)) // round 7: the tree root's children ARE checked against it
				}
			}
			if kind == "upd" && old != nil && old.parent == sp.parent && old.isParent == sp.isParent && old.tree == sp.tree &&
				fmt.Sprint(old.ns) == fmt.Sprint(sp.ns) && old.mn == sp.mn && old.mx == sp.mx {
				if c15Object(old).Labels[extension.LabelQuotaParent] != c15Object(sp).Labels[extension.LabelQuotaParent] || old.ipCode() != sp.ipCode() ||
					old.nsShape != sp.nsShape || (old.mnNil != sp.mnNil && sp.mn == [c15Dims]int64{c15Absent, c15Absent, c15Absent}) {
					h.Tag("upd:same-content-other-spelling:" + c15ErrKind(err)) // the unchanged-fields shortcut compares raw strings
				} else {
					h.Tag("upd:unchanged-fields:" + c15ErrKind(err))
				}
			}
			after := c15Snapshot(qt)
			for _, l := range after.lines() {
				h.Obs("%s", l)
			}

			// ---- oracle ----
			if !ok {
				if strings.Join(before.lines(), "\n") != strings.Join(after.lines(), "\n") {
					h.Fail("C15:reject-changed-state", "request %d (%s %d) was rejected but the recorded topology changed", st, kind, target)
					failed = true
				}
				continue
			}
			accepted++
			book.admitted(kind, old, sp, target)
			if kind == "upd" && old != nil && fmt.Sprint(old.ns) != fmt.Sprint(sp.ns) {
				for _, x := range old.ns {
					for _, y := range sp.ns {
						if x == y {
							nsKeptAcrossUpdate = true
						}
					}
				}
			}
			switch kind {
			case "add":
				g.store[target] = sp
				if sp.force || sp.treeRoot {
					minSumApplies = false
				}
			case "upd":
				if old != nil && old.parent != sp.parent {
					reparents++
					h.Tag("accepted-reparent")
				}
				if old == nil {
					h.Fail("C15:update-unknown-accepted", "update of unknown quota %d accepted", target)
					failed = true
				}
				g.store[target] = sp
				if sp.force || sp.treeRoot {
					minSumApplies = false
				}
				if noPersist && staleOld != nil {
					stale[target] = staleOld // the API server keeps what it had
					h.Tag("upd:admitted-not-persisted")
				} else {
					delete(stale, target)
				}
			case "del":
				delete(g.store, target)
				delete(stale, target)
				// a quota with children or pods is not deleted (children per the parent links before the request)
				for _, q := range before.qs {
					if q.parent == target {
						h.Fail("C15:delete-guard", "quota %d deleted while quota %d has it as parent", target, q.name)
						failed = true
						break
					}
				}
				if labelPods {
					h.Fail("C15:delete-guard", "quota %d deleted while pods are bound to it", target)
					failed = true
				}
			}
			// the recorded topology: with the informer echo the recorded bypass flags follow label-only updates (accepted
			// without any check), so the state-based min-sum clause exempts by the oracle's bookkeeping there
			exempt := map[int]bool(nil)
			if echo {
				exempt = book.taint
			}
			if fp, what := c15WFx(after, g.store, minSumApplies, exempt); fp != "" {
				h.Fail(fp, "after request %d (%s %d): %s", st, kind, target, what)
				failed = true
			}
			// the admission verdict against the oracle's own bookkeeping of admitted objects
			if fp, what := c15Judge(g.store, minSumApplies, book); fp != "" && !failed {
				h.Fail(fp, "request %d (%s %d) was admitted: %s", st, kind, target, what)
				failed = true
			}
			if fp, what := c15StepMinSum(g.store, kind, old, sp); fp != "" && !failed {
				h.Fail(fp, "request %d (%s %d) was admitted: %s", st, kind, target, what)
				failed = true
			}
			// decided by this stream (DESIGN C15, reading note ii): checkMinQuotaValidate returns at once for ANY quota
			// labelled is-root=true, also one that does not hang directly off the root.  Exhibit: such a request admitted
			// although, counting it like an ordinary quota, its parent's or its own children's mins do not fit (no other
			// bypassing quota involved).  Tag always; a failure only with VERIF_C15_STRICTROOT=1 (by design of the code the
			// label is a bypass; the property's min-sum clause exempts it).
			if kind != "del" && sp.treeRoot && !sp.force && sp.parent != 0 {
				if what := c15PlainSumAround(g.store, book.taint, target); what != "" {
					isRootBelowRoot = true
					if os.Getenv("VERIF_C15_STRICTROOT") == "1" && !failed {
						h.Fail("C15:is-root-bypass-below-root", "request %d (%s %d, is-root=true under parent %d) was admitted: %s", st, kind, target, sp.parent, what)
						failed = true
					}
				}
			}
		}
		book.tags(h)
		h.Tag(fmt.Sprintf("history:stale-old-object:%d", vB(staleSeen)))
		if stalePending {
			h.Tag("history:stale-old-object-with-other-parent")
		}
		if nsKeptAcrossUpdate {
			h.Tag("accepted-ns-edit-keeping-a-namespace")
		}
		if isRootBelowRoot {
			h.Tag("bypass:is-root-below-root:min-sum-exceeded")
		}
		h.Tag(fmt.Sprintf("final-size:%d", len(g.store)))
		depth := 0
		for n := range g.store {
			dd, cur := 0, n
			for cur != 0 && dd < 10 {
				if s, ok := g.store[cur]; ok {
					cur = s.parent
				} else {
					break
				}
				dd++
			}
			if dd > depth {
				depth = dd
			}
		}
		h.Tag(fmt.Sprintf("final-depth:%d", depth))
		if accepted >= 3 && depth >= 2 {
			h.Nontrivial()
		}
		h.End()
	}
}

// ---- root-add stream (goal: decide the suspected defect excluded by NotRootAdd) ----
//
// The scheduler creates the ElasticQuota object NAMED koordinator-root-quota itself
// (pkg/scheduler/plugins/elasticquota/plugin_helper.go createRootQuotaIfNotPresent: is-parent=true,
// parent label ""), so the webhook does receive this create request.  ValidAddQuota then executes
// `qt.quotaHierarchyInfo[quotaInfo.Name] = make(...)` unconditionally, i.e. it REPLACES the root's child
// set.  Oracle of this stream (one clause of "children map = inverse of the parent links"): every
// recorded quota whose parent is the root is listed among the root's children.
// The pinned code failed it (49/60 cases); repaired by the fix: commit f812ecb (child set created only when absent).
// On by default; VERIF_C15_ROOTADD=0 switches the stream off.
func TestVerifC15RootAdd(t *testing.T) {
	h := vOpen("C15")
	if h == nil {
		t.Skip("VERIF_OUT not set")
	}
	n := h.N(60, 600)
	if os.Getenv("VERIF_C15_ROOTADD") == "0" {
		n = 0
	}
	none := [c15Dims]int64{c15Absent, c15Absent, c15Absent}
	for idx := 0; idx < n; idx++ {
		r := h.Begin(idx)
		if r == nil {
			continue
		}
		nilMaps := r.Bool()
		cl := &c15Client{}
		qt := NewQuotaTopology(cl)
		store := map[int]*c15Spec{}
		mk := func(name, parent int, isParent bool, mn int64) *c15Spec {
			return &c15Spec{name: name, parent: parent, isParent: isParent, mn: [c15Dims]int64{mn * 1000, c15Absent, c15Absent}, mx: [c15Dims]int64{20000, c15Absent, c15Absent}}
		}
		var plan []*c15Spec  // adds; name 0 = the root-named object
		pre := r.Range(0, 3) // quotas hanging off the root before the root object is created
		for i := 0; i < pre; i++ {
			plan = append(plan, mk(3+i, 0, i == 0 || r.Bool(), int64(r.Range(4, 8))))
		}
		if pre > 0 && r.Bool() {
			plan = append(plan, mk(6, 3, false, int64(r.Range(0, 3)))) // a grandchild
		}
		root := &c15Spec{name: 0, parent: c15NoParent, isParent: true, mn: none, mx: none, mnNil: nilMaps, mxNil: nilMaps}
		if r.Chance(1, 3) {
			root.parentShape = 1 // no parent label at all (the scheduler writes the label with value "")
		}
		switch r.Intn(6) {
		case 0:
			root.parent = 0 // parent label names the root itself
		case 1:
			if pre > 0 {
				root.parent = 3
			}
		case 2:
			root.mx = [c15Dims]int64{20000, c15Absent, c15Absent}
		}
		plan = append(plan, root)
		for i := 0; i < r.Range(0, 2); i++ {
			plan = append(plan, mk(7+i, 0, r.Bool(), int64(r.Range(0, 4))))
		}
		if r.Chance(1, 3) {
			plan = append(plan, root) // second create of the root object: "already exist"
		}
		sawRoot, failed := false, false
		h.Op("echo 1") // the informer event of every admitted create reaches OnQuotaAdd right after
		for st, sp := range plan {
			before := c15Snapshot(qt)
			var err error
			h.Op("%s", c15OpLine("add", sp, nil))
			obj := c15Object(sp)
			if h.Guard(func() { err = qt.ValidAddQuota(obj) }) || (err == nil && c15Deliver(h, qt, "add", nil, obj, 0)) {
				h.Obs("panic")
				h.Fail("C15:panic", "request %d (add %d) panicked", st, sp.name)
				break
			}
			h.Obs("res %d", vB(err == nil))
			if sp.name == 0 {
				h.Tag(fmt.Sprintf("rootadd:%s:pre%d", c15ErrKind(err), pre))
			} else {
				h.Tag("add:" + c15ErrKind(err))
			}
			after := c15Snapshot(qt)
			for _, l := range after.lines() {
				h.Obs("%s", l)
			}
			if err != nil {
				if strings.Join(before.lines(), "\n") != strings.Join(after.lines(), "\n") {
					h.Fail("C15:reject-changed-state", "request %d (add %d) was rejected but the recorded topology changed", st, sp.name)
					failed = true
				}
				continue
			}
			store[sp.name] = sp
			if sp.name == 0 {
				sawRoot = true
				// decided by this stream (reading note i): validateQuotaTopology returns at once for the root NAME, so a create
				// of koordinator-root-quota that carries a parent label is admitted and recorded as a child of that parent
				// (also of a quota that does not exist, or of itself).  Tag always; a failure only with VERIF_C15_ROOTPARENT=1.
				if rq := after.qs[0]; rq != nil && rq.parent != c15NoParent {
					_, known := after.qs[rq.parent]
					h.Tag(fmt.Sprintf("rootadd:recorded-with-parent:self%d:known%d", vB(rq.parent == 0), vB(known)))
					if os.Getenv("VERIF_C15_ROOTPARENT") == "1" && !failed {
						h.Fail("C15:root-recorded-with-parent", "after request %d: the root quota object is recorded with parent %d (recorded quota: %v) and listed among that parent's children %v",
							st, rq.parent, known, after.kids[rq.parent])
						failed = true
					}
				}
			}
			if after.bad != "" {
				h.Fail("C15:undumpable", "%s", after.bad)
				failed = true
			}
			for _, nm := range c15SortedKeysQ(after.qs) {
				q := after.qs[nm]
				if nm == 0 || q.parent != 0 {
					continue
				}
				found := false
				for _, c := range after.kids[0] {
					if c == nm {
						found = true
					}
				}
				if !found && !failed {
					h.Fail("C15:root-add-clears-children", "after request %d (add %d): quota %d has the root as parent but is not among the root's recorded children %v", st, sp.name, nm, after.kids[0])
					failed = true
				}
			}
		}
		if sawRoot && pre > 0 {
			h.Nontrivial()
		}
		h.End()
	}
	h.Close("root-add stream: 0-3 quotas under the root (+ grandchild), then a create request NAMED koordinator-root-quota " +
		"(parent label \"\" as the scheduler writes it / root / an existing quota), then more creates; non-trivial = root object accepted with >=1 quota already under the root")
}

// ---- exhaustive small-scope stream (DESIGN §4 C15 R) ----
//
// Request alphabet (111): for each of 3 names {3,4,5}: create and update with is-parent in {0,1} x cpu-min in {1100m,2250m,2750m}
// x parent in {root, the two other names} (cpu-max 8500m), and delete.  ALL sequences of <= 4 requests (quick tier: <= 3)
// are covered: a request that is rejected, or accepted without changing the recorded topology, leaves the state as it
// was (that is itself checked), so every sequence containing it behaves like the sequence without it; only
// accepted, state-changing requests are extended.  One case = one committed prefix (<= 3 requests, each accepted and
// state-changing) followed by all 111 requests, each evaluated on the state after the prefix (`try`: the real
// topology is rebuilt from the prefix before every request; the model evaluates without committing).
type c15Req struct {
	kind string
	sp   *c15Spec
}

func c15Alphabet() []c15Req {
	var out []c15Req
	names := []int{3, 4, 5}
	for _, n := range names {
		for _, ip := range []bool{false, true} {
			// milli-cpu; 1100+1100 fits under 2250 and 2750, 1100+2250 does not fit under 2750; 2750 does not fit under
			// 2250 although both round up to 3 whole units (child under parent, and parent lowered under its child)
			for _, mn := range []int64{1100, 2250, 2750} {
				for _, p := range []int{0, 3, 4, 5} {
					if p == n {
						continue
					}
					sp := &c15Spec{name: n, parent: p, isParent: ip, mn: [c15Dims]int64{mn, c15Absent, c15Absent}, mx: [c15Dims]int64{8500, c15Absent, c15Absent}}
					out = append(out, c15Req{"add", sp}, c15Req{"upd", sp})
				}
			}
		}
		out = append(out, c15Req{"del", &c15Spec{name: n, mn: [c15Dims]int64{c15Absent, c15Absent, c15Absent}, mx: [c15Dims]int64{c15Absent, c15Absent, c15Absent}}})
	}
	return out
}

func (rq c15Req) line() string {
	if rq.kind == "del" {
		return fmt.Sprintf("del %d 0 0", rq.sp.name)
	}
	return c15OpLine(rq.kind, rq.sp, nil)
}

// c15Apply sends one request to the real topology; store = accepted API objects (old object of update / delete).
func c15Apply(h *vHarness, qt *quotaTopology, store map[int]*c15Spec, rq c15Req) (ok, panicked bool, err error) {
	old := store[rq.sp.name]
	switch rq.kind {
	case "add":
		obj := c15Object(rq.sp)
		panicked = h.Guard(func() { err = qt.ValidAddQuota(obj) })
	case "upd":
		obj := c15Object(rq.sp)
		var oldObj *v1alpha1.ElasticQuota
		if old != nil {
			oldObj = c15Object(old)
		}
		panicked = h.Guard(func() { err = qt.ValidUpdateQuota(oldObj, obj) })
	case "del":
		obj := c15Object(rq.sp)
		if old != nil {
			obj = c15Object(old)
		}
		panicked = h.Guard(func() { err = qt.ValidDeleteQuota(obj) })
	}
	ok = !panicked && err == nil
	if ok && (rq.kind == "add" || old != nil) {
		// the informer event of the admitted object reaches the handlers right after (op line `echo 1`)
		obj := c15Object(rq.sp)
		var oldObj *v1alpha1.ElasticQuota
		if old != nil {
			oldObj = c15Object(old)
			if rq.kind == "del" {
				obj = oldObj
			}
		}
		if c15Deliver(h, qt, rq.kind, oldObj, obj, 0) {
			ok, panicked = false, true
		}
	}
	if ok {
		switch rq.kind {
		case "add", "upd":
			if rq.kind == "add" || old != nil {
				store[rq.sp.name] = rq.sp
			}
		case "del":
			delete(store, rq.sp.name)
		}
	}
	return
}

func c15Compact(ok bool, d *c15Dump) string {
	return strings.Join(append([]string{fmt.Sprintf("res %d", vB(ok))}, d.lines()...), " | ")
}

func TestVerifC15Exhaustive(t *testing.T) {
	h := vOpen("C15")
	if h == nil {
		t.Skip("VERIF_OUT not set")
	}
	alpha := c15Alphabet()
	A := len(alpha)
	maxPrefix := 2 // quick: all sequences of <= 3 requests
	if h.Tier == "thorough" {
		maxPrefix = 3 // all sequences of <= 4 requests
	}
	maxPrefix = vEnvInt("VERIF_C15_EXH_PREFIX", maxPrefix)
	rebuild := func(prefix []int) (*quotaTopology, map[int]*c15Spec) {
		qt := NewQuotaTopology(&c15Client{})
		store := map[int]*c15Spec{}
		for _, i := range prefix {
			c15Apply(h, qt, store, alpha[i])
		}
		return qt, store
	}
	index := func(prefix []int) int {
		idx, base := 0, 1
		for l := 0; l < len(prefix); l++ { // offset of the block of prefixes of this length
			idx += base
			base *= A
		}
		v := 0
		for _, i := range prefix {
			v = v*A + i
		}
		return idx + v // () -> 0, (i) -> 1+i, (i,j) -> 1+A+i*A+j, ...
	}
	var rec func(prefix []int)
	rec = func(prefix []int) {
		var children []int
		emit := h.Begin(index(prefix)) != nil
		// committed prefix
		qt := NewQuotaTopology(&c15Client{})
		store := map[int]*c15Spec{}
		if emit {
			h.Op("compact")
			h.Op("echo 1")
		}
		for _, i := range prefix {
			ok, _, _ := c15Apply(h, qt, store, alpha[i])
			if emit {
				h.Op("%s", alpha[i].line())
				h.Obs("%s", c15Compact(ok, c15Snapshot(qt)))
			}
		}
		base := c15Snapshot(qt)
		baseLines := strings.Join(base.lines(), "\n")
		for i, rq := range alpha {
			qt2, store2 := rebuild(prefix)
			ok, panicked, err := c15Apply(h, qt2, store2, rq)
			after := c15Snapshot(qt2)
			changed := strings.Join(after.lines(), "\n") != baseLines
			if ok && changed && len(prefix) < maxPrefix {
				children = append(children, i)
			}
			if !emit {
				continue
			}
			h.Op("try %s", rq.line())
			if panicked {
				h.Obs("panic")
				h.Fail("C15:panic", "request %s panicked after prefix %v", rq.line(), prefix)
				continue
			}
			h.Obs("%s", c15Compact(ok, after))
			h.Tag(fmt.Sprintf("len%d:%s:%s", len(prefix)+1, rq.kind, c15ErrKind(err)))
			if !ok {
				if changed {
					h.Fail("C15:reject-changed-state", "request %s was rejected but the recorded topology changed", rq.line())
				}
				continue
			}
			if rq.kind == "upd" && base.qs[rq.sp.name] == nil {
				h.Fail("C15:update-unknown-accepted", "update of unknown quota %d accepted", rq.sp.name)
			}
			if rq.kind == "del" {
				for _, q := range base.qs {
					if q.parent == rq.sp.name {
						h.Fail("C15:delete-guard", "quota %d deleted while quota %d has it as parent", rq.sp.name, q.name)
						break
					}
				}
			}
			if fp, what := c15WF(after, store2, true); fp != "" {
				h.Fail(fp, "after prefix %v, request %s: %s", prefix, rq.line(), what)
			}
		}
		if emit {
			if len(prefix) >= 1 {
				h.Nontrivial()
			}
			h.Tag(fmt.Sprintf("prefix-len:%d", len(prefix)))
			h.End()
		}
		for _, i := range children {
			rec(append(append([]int(nil), prefix...), i))
		}
	}
	rec(nil)
	h.Close(fmt.Sprintf("exhaustive: every sequence of <= %d requests over the 111-request alphabet (3 names x {create,update} x 2 is-parent x 3 fractional cpu-min x 3 parents, + delete); "+
		"one case = committed prefix of accepted state-changing requests + all 111 next requests; non-trivial = non-empty prefix", maxPrefix+1))
}

// ---- informer-echo exhibit (outside the property's scope: admission requests only) ----
//
// The webhook updates its recorded topology twice for every accepted request: at admission (Valid*Quota) and again
// when the informer delivers the object (OnQuotaAdd / OnQuotaUpdate / OnQuotaDelete, which overwrite without any check).
// An echo that arrives after a LATER admission re-installs stale data.  Two fixed scenarios; the oracle is c15WF on the
// dump after all admissions and echoes.  Off unless VERIF_C15_ECHO=1 (suspected defect, reported to main; not modelled).
func TestVerifC15Echo(t *testing.T) {
	h := vOpen("C15")
	if h == nil {
		t.Skip("VERIF_OUT not set")
	}
	n := 2
	if os.Getenv("VERIF_C15_ECHO") != "1" {
		n = 0
	}
	mk := func(name, parent int, isParent bool, mn int64, ns ...int) *c15Spec {
		return &c15Spec{name: name, parent: parent, isParent: isParent, ns: ns, mn: [c15Dims]int64{mn * 1000, c15Absent, c15Absent}, mx: [c15Dims]int64{20000, c15Absent, c15Absent}}
	}
	for idx := 0; idx < n; idx++ {
		if h.Begin(idx) == nil {
			continue
		}
		qt := NewQuotaTopology(&c15Client{})
		store := map[int]*c15Spec{}
		admit := func(kind string, sp *c15Spec) bool {
			var err error
			old := store[sp.name]
			switch kind {
			case "add":
				err = qt.ValidAddQuota(c15Object(sp))
			case "upd":
				err = qt.ValidUpdateQuota(c15Object(old), c15Object(sp))
			}
			h.Op("%s", c15OpLine(kind, sp, nil))
			h.Obs("admit %s %d -> %d", kind, sp.name, vB(err == nil))
			if err == nil {
				store[sp.name] = sp
			}
			return err == nil
		}
		switch idx {
		case 0: // namespace bound to two quotas
			a0, a1 := mk(3, 0, false, 1, 1), mk(3, 0, false, 1)
			admit("add", a0)
			qt.OnQuotaAdd(c15Object(a0))
			admit("upd", a1)                    // q3 releases ns1                     (echo delayed)
			admit("add", mk(4, 0, false, 1, 1)) // q4 binds ns1: accepted, ns1 is free
			h.Op("echo-upd 3")
			qt.OnQuotaUpdate(c15Object(a0), c15Object(a1)) // late echo of the update: deletes ns1 -> q4's binding
			admit("add", mk(5, 0, false, 1, 1))            // q5 binds ns1 too: accepted
		case 1: // children's mins exceed the parent's min
			p, c6, c2 := mk(3, 0, true, 8), mk(4, 3, false, 6), mk(4, 3, false, 2)
			admit("add", p)
			admit("add", c6)
			admit("upd", c2) // q4 min 6 -> 2 (echo delayed)
			c6b := *c6
			admit("upd", &c6b) // q4 min 2 -> 6 again: accepted (6 <= 8)
			h.Op("echo-upd 4")
			qt.OnQuotaUpdate(c15Object(c6), c15Object(c2))   // late echo re-installs min 2
			admit("add", mk(5, 3, false, 6))                 // q5 min 6: accepted against the stale 2 (2+6 <= 8), really 6+6 > 8
			qt.OnQuotaUpdate(c15Object(c2), c15Object(&c6b)) // echo of the second update: min 6
			qt.OnQuotaAdd(c15Object(store[5]))
		}
		after := c15Snapshot(qt)
		for _, l := range after.lines() {
			h.Obs("%s", l)
		}
		if fp, what := c15WF(after, store, true); fp != "" {
			h.Fail("C15:informer-echo-race", "%s: %s", fp, what)
		}
		h.Nontrivial()
		h.End()
	}
	h.Close("informer-echo exhibit (VERIF_C15_ECHO=1 only): two fixed interleavings of admissions and late informer events")
}

// ---- two replicas behind one API server (informer glue wired through the REAL NewQuotaInformer) ----
//
// Two quotaTopology instances, each registered with its own (fake) controller-runtime cache by the real
// NewQuotaInformer — as the mutating and the validating handler both do, so in half of the histories twice.  One
// simulated API server stores the admitted objects and assigns metadata.generation as the real one does for this CRD
// (config/crd/bases/scheduling.sigs.k8s.io_elasticquotas.yaml has no status subresource: generation moves on every
// change outside metadata, i.e. spec or status; label / annotation edits keep it).  Requests alternate between the
// replicas; every admitted object is broadcast as an informer event to BOTH replicas through whatever handler the
// registration installed.  Oracle: c15WFx on either replica's dump and c15Judge on the admitted objects.

type c15Informer struct {
	*controllertest.FakeInformer
	handlers []toolscache.ResourceEventHandler
}

func (i *c15Informer) AddEventHandler(hd toolscache.ResourceEventHandler) (toolscache.ResourceEventHandlerRegistration, error) {
	i.handlers = append(i.handlers, hd)
	return i.FakeInformer.AddEventHandler(hd)
}
func (i *c15Informer) AddEventHandlerWithResyncPeriod(hd toolscache.ResourceEventHandler, d time.Duration) (toolscache.ResourceEventHandlerRegistration, error) {
	i.handlers = append(i.handlers, hd)
	return i.FakeInformer.AddEventHandlerWithResyncPeriod(hd, d)
}
func (i *c15Informer) AddEventHandlerWithOptions(hd toolscache.ResourceEventHandler, o toolscache.HandlerOptions) (toolscache.ResourceEventHandlerRegistration, error) {
	i.handlers = append(i.handlers, hd)
	return i.FakeInformer.AddEventHandlerWithOptions(hd, o)
}

type c15Replica struct {
	qt  *quotaTopology
	inf *c15Informer
}

var c15ReplicaScheme *runtime.Scheme // the scheme of the replicas' fake caches (ElasticQuota registered, as in koord-manager's options.Scheme)

func c15NewReplica(registrations int) (*c15Replica, error) {
	rp := &c15Replica{qt: NewQuotaTopology(&c15Client{}), inf: &c15Informer{FakeInformer: &controllertest.FakeInformer{Synced: true}}}
	if c15ReplicaScheme == nil {
		sch := runtime.NewScheme()
		if err := v1alpha1.AddToScheme(sch); err != nil {
			return nil, err
		}
		c15ReplicaScheme = sch
	}
	sch := c15ReplicaScheme
	gvk := v1alpha1.SchemeGroupVersion.WithKind("ElasticQuota")
	fc := &informertest.FakeInformers{Scheme: sch, InformersByGVK: map[schema.GroupVersionKind]toolscache.SharedIndexInformer{gvk: rp.inf}}
	for i := 0; i < registrations; i++ {
		if _, err := NewQuotaInformer(fc, rp.qt); err != nil {
			return nil, err
		}
	}
	if len(rp.inf.handlers) != registrations {
		return nil, fmt.Errorf("NewQuotaInformer registered %d handlers in %d calls", len(rp.inf.handlers), registrations)
	}
	return rp, nil
}

// event: what the shared informer machinery calls on every registered handler
func (rp *c15Replica) event(h *vHarness, kind string, oldObj, obj *v1alpha1.ElasticQuota, shape int) (panicked bool) {
	if !c15SchemeRegistered && shape != 3 {
		shape = 0
	}
	return h.Guard(func() {
		for _, hd := range rp.inf.handlers {
			switch kind {
			case "add":
				hd.OnAdd(c15EventObj(obj, shape&1), false)
			case "upd":
				hd.OnUpdate(c15EventObj(oldObj, shape&1), c15EventObj(obj, shape&1))
			case "del":
				hd.OnDelete(c15EventObj(obj, shape))
			}
		}
	})
}

// c15APIStore: the simulated API server's side of an admitted write
func c15APIStore(api map[int]*v1alpha1.ElasticQuota, rv *int, kind string, name int, obj *v1alpha1.ElasticQuota) {
	*rv++
	switch kind {
	case "add":
		obj.Generation = 1
		obj.UID = types.UID(fmt.Sprintf("uid-%d-%d", name, *rv))
	case "upd":
		old := api[name]
		obj.UID = old.UID
		obj.Generation = old.Generation
		if !apiequality.Semantic.DeepEqual(old.Spec, obj.Spec) || !apiequality.Semantic.DeepEqual(old.Status, obj.Status) {
			obj.Generation++
		}
	}
	obj.ResourceVersion = fmt.Sprint(*rv)
	if kind == "del" {
		delete(api, name)
	} else {
		api[name] = obj
	}
}

func TestVerifC15Replicas(t *testing.T) {
	h := vOpen("C15")
	if h == nil {
		t.Skip("VERIF_OUT not set")
	}
	n := h.N(600, 15000)
	for idx := 0; idx < n; idx++ {
		r := h.Begin(idx)
		if r == nil {
			continue
		}
		g := &c15Gen{r: r, store: map[int]*c15Spec{}}
		switch r.Intn(3) {
		case 0:
			g.keyset = [c15Dims]bool{true, false, false}
		case 1:
			g.keyset = [c15Dims]bool{true, true, false}
		default:
			g.keyset = [c15Dims]bool{true, true, true}
		}
		g.trees = r.Chance(1, 4)
		g.flags = r.Chance(1, 6)
		g.maxNames = r.Range(3, 5)
		rp := c15Repr{rootAsEmptyLabel: r.Bool(), emptyListAsNil: r.Bool()}
		registrations := r.Range(1, 2)
		h.Op("two")
		h.Tag(fmt.Sprintf("registrations:%d", registrations))
		var reps [2]*c15Replica
		for i := range reps {
			var err error
			if reps[i], err = c15NewReplica(registrations); err != nil {
				t.Fatalf("replica wiring: %v", err)
			}
		}
		api := map[int]*v1alpha1.ElasticQuota{}
		rv := 0
		book := c15NewBook()
		minSumApplies := true
		accepted, failed, metaOnly := 0, false, 0
		lastRep := r.Intn(2)
		// follow-up hint: what a stale replica would wrongly admit after a metadata-only update it did not see
		type hint struct {
			kind           string
			target, parent int
			ns             []int
		}
		var follow *hint
		steps := r.Range(6, 20)
		for st := 0; st < steps && !failed; st++ {
			rep := r.Intn(2)
			if r.Chance(2, 3) {
				rep = 1 - lastRep
			}
			lastRep = rep
			h.Op("rep %d", rep)
			qt := reps[rep].qt
			ex := g.existing()
			before := [2]*c15Dump{c15Snapshot(reps[0].qt), c15Snapshot(reps[1].qt)}
			kind := "upd"
			switch {
			case len(ex) == 0 || (len(ex) < g.maxNames && r.Chance(1, 2)):
				kind = "add"
			case r.Chance(1, 5):
				kind = "del"
			}
			var target int
			if kind == "add" {
				target = 3 + r.Intn(g.maxNames+1)
				for try := 0; try < 6 && g.store[target] != nil; try++ {
					target = 3 + r.Intn(g.maxNames+1)
				}
			} else if r.Chance(1, 12) {
				target = 3 + r.Intn(g.maxNames+1)
			} else {
				target = ex[r.Intn(len(ex))]
			}
			var sp *c15Spec
			if follow != nil && r.Chance(2, 3) {
				kind, target = follow.kind, follow.target
				h.Tag("follow-up:" + kind)
				if kind == "add" {
					for target = 3; g.store[target] != nil; target++ {
					}
					sp = g.fresh(target)
					sp.parent, sp.ns = follow.parent, follow.ns
					sp.isParent = false
					if p := g.store[sp.parent]; p != nil {
						sp.tree = p.tree
						for k := 0; k < c15Dims; k++ {
							if sp.mx[k] = p.mx[k]; p.mx[k] == c15Absent || p.mn[k] == c15Absent {
								sp.mn[k] = c15Absent
							} else {
								sp.mn[k] = 0
							}
						}
					}
				}
			}
			follow = nil
			old := g.store[target]
			var err error
			var evOld, evObj *v1alpha1.ElasticQuota
			panicked := false
			switch kind {
			case "add":
				if sp == nil {
					sp = g.fresh(target)
				}
				if sp.name == 0 {
					h.Fail("C15:assumption-not-root-add", "replica stream generated a create request named root")
				}
				g.shapes(sp, rp)
				viaFill := r.Chance(1, 3)
				if viaFill {
					h.Op("%s", c15OpLine("madd", sp, nil))
				} else {
					h.Op("%s", c15OpLine("add", sp, nil))
				}
				obj := c15Object(sp)
				evObj = obj
				panicked = h.Guard(func() {
					if viaFill {
						if err = qt.fillQuotaDefaultInformation(obj); err != nil {
							return
						}
					}
					err = qt.ValidAddQuota(obj)
				})
				if viaFill && !panicked && err == nil {
					sp.parentShape = 0
					sp.tree = c15TreeID(obj.Labels[extension.LabelQuotaTreeID])
				}
			case "upd":
				if old != nil {
					sp = g.mutate(old)
				} else {
					sp = g.fresh(target)
				}
				if old != nil && r.Chance(1, 4) {
					// a metadata-only re-parenting (labels only, spec untouched: the generation stays): under a recorded
					// is-parent quota with the same max keys and tree id, or back under the root
					cp := *old
					cp.ns = append([]int(nil), old.ns...)
					sp = &cp
					var cands []int
					for _, n := range g.existing() {
						if c := g.store[n]; n != target && c.isParent && c.tree == old.tree && c.parent != target {
							same := true
							for k := 0; k < c15Dims; k++ {
								same = same && (c.mx[k] == c15Absent) == (old.mx[k] == c15Absent)
							}
							if same && n != old.parent {
								cands = append(cands, n)
							}
						}
					}
					if len(cands) > 0 && !r.Chance(1, 5) {
						sp.parent = cands[r.Intn(len(cands))]
					} else {
						sp.parent = 0
					}
					h.Tag("upd:metadata-only-reparent-attempt")
				} else if old == nil || !r.Chance(1, 2) {
					g.shapes(sp, rp)
				} else if sp.nsShape == 2 {
					sp.ns = nil
				}
				h.Op("%s", c15OpLine("upd", sp, nil))
				obj := c15Object(sp)
				evOld, evObj = api[target], obj
				panicked = h.Guard(func() { err = qt.ValidUpdateQuota(evOld, obj) })
			case "del":
				h.Op("del %d 0 0", target)
				evObj = api[target]
				obj := evObj
				if obj == nil {
					obj = c15Object(&c15Spec{name: target, mn: [c15Dims]int64{c15Absent, c15Absent, c15Absent}, mx: [c15Dims]int64{c15Absent, c15Absent, c15Absent}})
				}
				panicked = h.Guard(func() { err = qt.ValidDeleteQuota(obj) })
			}
			ok := !panicked && err == nil
			if ok && (kind == "add" || old != nil) {
				// the API server stores the object and both informers deliver it
				gen0 := int64(0)
				if evOld != nil {
					gen0 = evOld.Generation
				}
				c15APIStore(api, &rv, kind, target, evObj)
				if kind == "upd" && evObj.Generation == gen0 {
					metaOnly++
					h.Tag("event:upd:generation-unchanged")
					if !c15SameCompared(evOld, evObj) {
						h.Tag("event:upd:generation-unchanged:topology-changed")
					}
				}
				for i := range reps {
					shape := 0
					if r.Chance(1, 6) {
						shape = 1
					}
					if kind == "del" && r.Chance(1, 3) {
						shape = r.Range(2, 3) // tombstone by value holding the unstructured / the typed object (typed informer)
					}
					h.Tag(fmt.Sprintf("event:%s:shape%d", kind, shape))
					if reps[i].event(h, kind, evOld, evObj, shape) {
						panicked = true
					}
				}
			}
			if panicked {
				h.Obs("panic")
				h.Fail("C15:panic", "request %d (%s %d on replica %d) or its informer event panicked", st, kind, target, rep)
				break
			}
			h.Obs("res %d", vB(ok))
			h.Tag(kind + ":" + c15ErrKind(err))
			after := [2]*c15Dump{c15Snapshot(reps[0].qt), c15Snapshot(reps[1].qt)}
			for i := range after {
				h.Obs("rep%d", i)
				for _, l := range after[i].lines() {
					h.Obs("%s", l)
				}
			}
			if !ok {
				for i := range after {
					if strings.Join(before[i].lines(), "\n") != strings.Join(after[i].lines(), "\n") {
						h.Fail("C15:reject-changed-state", "request %d (%s %d) was rejected but replica %d's recorded topology changed", st, kind, target, i)
						failed = true
					}
				}
				continue
			}
			accepted++
			book.admitted(kind, old, sp, target)
			switch kind {
			case "add", "upd":
				if kind == "upd" && old == nil {
					h.Fail("C15:update-unknown-accepted", "update of unknown quota %d accepted", target)
					failed = true
					break
				}
				if sp.force || sp.treeRoot {
					minSumApplies = false
				}
				if kind == "upd" {
					// what the OTHER replica must have learnt from the event
					switch {
					case old.parent != sp.parent && sp.parent != 0:
						follow = &hint{kind: "del", target: sp.parent}
					case old.isParent && !sp.isParent:
						follow = &hint{kind: "add", parent: target}
					default:
						for _, x := range sp.ns {
							had := false
							for _, y := range old.ns {
								had = had || x == y
							}
							if !had {
								follow = &hint{kind: "add", ns: []int{x}}
							}
						}
					}
				}
				g.store[target] = sp
			case "del":
				delete(g.store, target)
			}
			for i := range after {
				if fp, what := c15WFx(after[i], g.store, minSumApplies, book.taint); fp != "" && !failed {
					h.Fail(fp, "replica %d after request %d (%s %d on replica %d): %s", i, st, kind, target, rep, what)
					failed = true
				}
			}
			if fp, what := c15Judge(g.store, minSumApplies, book); fp != "" && !failed {
				h.Fail(fp, "request %d (%s %d) was admitted by replica %d: %s", st, kind, target, rep, what)
				failed = true
			}
			if fp, what := c15StepMinSum(g.store, kind, old, sp); fp != "" && !failed {
				h.Fail(fp, "request %d (%s %d) was admitted by replica %d: %s", st, kind, target, rep, what)
				failed = true
			}
		}
		book.tags(h)
		h.Tag(fmt.Sprintf("final-size:%d", len(g.store)))
		if accepted >= 3 && metaOnly >= 1 {
			h.Nontrivial()
		}
		h.End()
	}
	h.Close("two-replica stream: histories of 6-20 requests over <=6 names, each handled by one of two quotaTopology replicas wired through the real NewQuotaInformer " +
		"(1 or 2 registrations) on fake controller-runtime caches; a simulated API server stores admitted objects, assigns generations (bump on spec change only) and " +
		"broadcasts Add/Update/Delete (typed, unstructured, tombstone by value) to both; 2/3 of the requests after a metadata-only reparent / is-parent drop / namespace gain " +
		"probe the other replica with the request a stale replica would wrongly admit; non-trivial = >=3 admitted requests incl. >=1 update that kept the generation")
}

// ---- a delete that arrives as a tombstone (found by this stream as a gated exhibit, repaired by fc155e0; on by default) ----
//
// NewQuotaInformer asks for a TYPED informer, so the tombstone of a delete a replica missed (watch re-list) holds the typed
// object.  Before fc155e0 toElasticQuota accepted a cache.DeletedFinalStateUnknown only when it held an
// *unstructured.Unstructured: the replica kept the quota, ADMITTED children under the vanished parent and refused its
// re-create.  Case 0: typed object inside the tombstone (always).  Case 1: unstructured object inside; it is converted with
// client-go's scheme.Scheme, where koord-manager does not register the ElasticQuota type, so it only runs when the harness
// registered the type (not with VERIF_C15_TOMBSTONE=prod; a typed informer never yields this form).
func TestVerifC15Tombstone(t *testing.T) {
	h := vOpen("C15")
	if h == nil {
		t.Skip("VERIF_OUT not set")
	}
	n := 2
	if !c15SchemeRegistered {
		n = 1
	}
	for idx := 0; idx < n; idx++ {
		if h.Begin(idx) == nil {
			continue
		}
		a, _ := c15NewReplica(1)
		b, _ := c15NewReplica(1)
		sp := &c15Spec{name: 3, isParent: true, ns: []int{1}, mn: [c15Dims]int64{1000, c15Absent, c15Absent}, mx: [c15Dims]int64{8000, c15Absent, c15Absent}}
		obj := c15Object(sp)
		h.Op("%s", c15OpLine("add", sp, nil))
		e1 := a.qt.ValidAddQuota(obj)
		a.event(h, "add", nil, obj, 0)
		b.event(h, "add", nil, obj, 0)
		h.Op("del 3 0 0")
		e2 := a.qt.ValidDeleteQuota(obj)
		a.event(h, "del", nil, obj, 0)
		shape := 3 // typed object inside the tombstone: what the typed informer yields
		if idx == 1 {
			shape = 2 // unstructured inside: needs the type in client-go's scheme.Scheme
		}
		b.qt.OnQuotaDelete(c15EventObj(obj, shape))
		child := &c15Spec{name: 4, parent: 3, mn: [c15Dims]int64{1000, c15Absent, c15Absent}, mx: [c15Dims]int64{8000, c15Absent, c15Absent}}
		h.Op("%s", c15OpLine("add", child, nil))
		e3 := b.qt.ValidAddQuota(c15Object(child))
		h.Op("%s", c15OpLine("add", sp, nil))
		e4 := b.qt.ValidAddQuota(c15Object(sp))
		h.Obs("admit %d %d child-under-deleted-parent-on-b %d recreate-on-b %d", vB(e1 == nil), vB(e2 == nil), vB(e3 == nil), vB(e4 == nil))
		if e1 == nil && e2 == nil && e3 == nil {
			h.Fail("C15:parent-missing:tombstone-dropped", "quota 3 deleted through replica a, tombstone (shape %d) delivered to replica b; b still records it: it ADMITS quota 4 with parent 3 (parent does not exist) and refuses the re-create of 3: %v", shape, e4)
		}
		h.Nontrivial()
		h.End()
	}
	h.Close("tombstone stream: parent deleted through replica a, the delete reaches replica b as DeletedFinalStateUnknown (by value) holding the typed / the unstructured object; " +
		"b must then refuse a child under the deleted parent")
}

// ---- exhaustive small-scope stream for the informer glue (thorough tier) ----
//
// Request alphabet (2 replicas x 2 names {3,4} x ({create, update} x is-parent {0,1} x parent {root, the other name} x
// namespaces {[], [1], [2], [1,2], [2,1]} + delete) = 164): ALL sequences of <= 3 requests, each request handled by either
// replica, every admitted object broadcast to both through the real NewQuotaInformer registration.  Same scheme as
// TestVerifC15Exhaustive: one case = one committed prefix of admitted, state-changing requests followed by all 164
// requests, each evaluated on the system rebuilt from the prefix (`try`).
type c15RReq struct {
	rep  int
	kind string
	sp   *c15Spec
}

func c15ReplicaAlphabet() []c15RReq {
	var out []c15RReq
	none := [c15Dims]int64{c15Absent, c15Absent, c15Absent}
	for rep := 0; rep < 2; rep++ {
		for _, n := range []int{3, 4} {
			for _, ip := range []bool{false, true} {
				for _, p := range []int{0, 7 - n} {
					for _, ns := range [][]int{nil, {1}, {2}, {1, 2}, {2, 1}} {
						sp := &c15Spec{name: n, parent: p, isParent: ip, ns: ns, mn: [c15Dims]int64{1000, c15Absent, c15Absent}, mx: [c15Dims]int64{8000, c15Absent, c15Absent}}
						out = append(out, c15RReq{rep, "add", sp}, c15RReq{rep, "upd", sp})
					}
				}
			}
			out = append(out, c15RReq{rep, "del", &c15Spec{name: n, mn: none, mx: none}})
		}
	}
	return out
}

func (rq c15RReq) line() string {
	if rq.kind == "del" {
		return fmt.Sprintf("del %d 0 0", rq.sp.name)
	}
	return c15OpLine(rq.kind, rq.sp, nil)
}

type c15Sys struct {
	reps  [2]*c15Replica
	api   map[int]*v1alpha1.ElasticQuota
	store map[int]*c15Spec
	rv    int
}

func c15NewSys(t *testing.T) *c15Sys {
	sys := &c15Sys{api: map[int]*v1alpha1.ElasticQuota{}, store: map[int]*c15Spec{}}
	for i := range sys.reps {
		var err error
		if sys.reps[i], err = c15NewReplica(1); err != nil {
			t.Fatalf("replica wiring: %v", err)
		}
	}
	return sys
}

func (sys *c15Sys) apply(h *vHarness, rq c15RReq) (ok, panicked bool, err error) {
	qt := sys.reps[rq.rep].qt
	name := rq.sp.name
	old := sys.api[name]
	obj := c15Object(rq.sp)
	switch rq.kind {
	case "add":
		panicked = h.Guard(func() { err = qt.ValidAddQuota(obj) })
	case "upd":
		panicked = h.Guard(func() { err = qt.ValidUpdateQuota(old, obj) })
	case "del":
		if old != nil {
			obj = old
		}
		panicked = h.Guard(func() { err = qt.ValidDeleteQuota(obj) })
	}
	ok = !panicked && err == nil
	if ok && (rq.kind == "add" || old != nil) {
		c15APIStore(sys.api, &sys.rv, rq.kind, name, obj)
		for i := range sys.reps {
			if sys.reps[i].event(h, rq.kind, old, obj, 0) {
				ok, panicked = false, true
			}
		}
		if rq.kind == "del" {
			delete(sys.store, name)
		} else {
			sys.store[name] = rq.sp
		}
	}
	return
}

func (sys *c15Sys) compact(ok bool) (string, [2]*c15Dump) {
	parts := []string{fmt.Sprintf("res %d", vB(ok))}
	var ds [2]*c15Dump
	for i := range sys.reps {
		ds[i] = c15Snapshot(sys.reps[i].qt)
		parts = append(parts, fmt.Sprintf("rep%d", i))
		parts = append(parts, ds[i].lines()...)
	}
	return strings.Join(parts, " | "), ds
}

func TestVerifC15ReplicasExhaustive(t *testing.T) {
	h := vOpen("C15")
	if h == nil {
		t.Skip("VERIF_OUT not set")
	}
	alpha := c15ReplicaAlphabet()
	A := len(alpha)
	maxPrefix := vEnvInt("VERIF_C15_REXH_PREFIX", 2) // all sequences of <= 3 requests
	rebuild := func(prefix []int) *c15Sys {
		sys := c15NewSys(t)
		for _, i := range prefix {
			sys.apply(h, alpha[i])
		}
		return sys
	}
	index := func(prefix []int) int {
		idx, base := 0, 1
		for l := 0; l < len(prefix); l++ {
			idx += base
			base *= A
		}
		v := 0
		for _, i := range prefix {
			v = v*A + i
		}
		return idx + v
	}
	book := c15NewBook() // the alphabet has no bypass labels
	var rec func(prefix []int)
	rec = func(prefix []int) {
		var children []int
		emit := h.Begin(index(prefix)) != nil
		sys := c15NewSys(t)
		if emit {
			h.Op("two")
			h.Op("compact")
		}
		for _, i := range prefix {
			ok, _, _ := sys.apply(h, alpha[i])
			if emit {
				h.Op("rep %d", alpha[i].rep)
				h.Op("%s", alpha[i].line())
				line, _ := sys.compact(ok)
				h.Obs("%s", line)
			}
		}
		baseLine, _ := sys.compact(true)
		for i, rq := range alpha {
			sys2 := rebuild(prefix)
			ok, panicked, err := sys2.apply(h, rq)
			line, ds := sys2.compact(ok)
			changed := line != baseLine && strings.Replace(line, "res 0", "res 1", 1) != baseLine
			if ok && changed && len(prefix) < maxPrefix {
				children = append(children, i)
			}
			if !emit {
				continue
			}
			h.Op("rep %d", rq.rep)
			h.Op("try %s", rq.line())
			if panicked {
				h.Obs("panic")
				h.Fail("C15:panic", "request %s on replica %d panicked after prefix %v", rq.line(), rq.rep, prefix)
				continue
			}
			h.Obs("%s", line)
			h.Tag(fmt.Sprintf("len%d:%s:%s", len(prefix)+1, rq.kind, c15ErrKind(err)))
			if !ok {
				if changed {
					h.Fail("C15:reject-changed-state", "request %s was rejected but a replica's recorded topology changed", rq.line())
				}
				continue
			}
			for r := range ds {
				if fp, what := c15WF(ds[r], sys2.store, true); fp != "" {
					h.Fail(fp, "replica %d after prefix %v, request %s on replica %d: %s", r, prefix, rq.line(), rq.rep, what)
				}
			}
			if fp, what := c15Judge(sys2.store, true, book); fp != "" {
				h.Fail(fp, "after prefix %v, request %s was admitted by replica %d: %s", prefix, rq.line(), rq.rep, what)
			}
		}
		if emit {
			if len(prefix) >= 1 {
				h.Nontrivial()
			}
			h.Tag(fmt.Sprintf("prefix-len:%d", len(prefix)))
			h.End()
		}
		for _, i := range children {
			rec(append(append([]int(nil), prefix...), i))
		}
	}
	rec(nil)
	h.Close(fmt.Sprintf("exhaustive two-replica stream: every sequence of <= %d requests over the 164-request alphabet (2 replicas x 2 names x {create,update} x 2 is-parent x "+
		"2 parents x 5 namespace lists, + delete), every admitted object broadcast to both replicas; one case = committed prefix + all 164 next requests; non-trivial = non-empty prefix", maxPrefix+1))
}
