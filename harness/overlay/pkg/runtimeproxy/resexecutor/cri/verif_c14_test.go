//go:build verif

package cri

import (
	"fmt"
	"testing"

	runtimeapi "k8s.io/cri-api/pkg/apis/runtime/v1"

	"github.com/koordinator-sh/koordinator/apis/runtime/v1alpha1"
	"github.com/koordinator-sh/koordinator/pkg/runtimeproxy/store"
	"github.com/koordinator-sh/koordinator/pkg/runtimeproxy/utils"
)

// C14 harness `criproxy`: the runtime-proxy glue that mirrors the koordlet hook answer into the CRI request.
// One case = one history on ONE container: CreateContainer, then UpdateContainerResources requests (rarely a
// StopContainer, a fail-over registration, or an update of an unknown container), each step driven through the
// real ContainerResourceExecutor in the order of criserver.go InterceptRuntimeRequest
// (ParseRequest -> hook sees GenerateHookRequest -> UpdateRequest -> backend -> ResourceCheckPoint) on the real
// in-memory store.  Observed: the resources the hook sees (`hk`) and the resources of the outgoing request (`out`).

type c14pRes struct {
	period, quota, shares, mem int64
	cpus, mems                 int // codes, 0 = ""
}

var c14pCpus = []string{"", "0-1", "2-3", "0-3", "0,2"}
var c14pMems = []string{"", "0", "1", "0-1"}

func c14pCode(tab []string, s string) int {
	for i, x := range tab {
		if x == s {
			return i
		}
	}
	return 99
}

func (a c14pRes) String() string {
	return fmt.Sprintf("%d %d %d %d %d %d", a.period, a.quota, a.shares, a.mem, a.cpus, a.mems)
}

func (a c14pRes) field(i int) int64 {
	return [...]int64{a.period, a.quota, a.shares, a.mem, int64(a.cpus), int64(a.mems)}[i]
}

var c14pFieldName = [...]string{"period", "quota", "shares", "memory", "cpuset-cpus", "cpuset-mems"}

func c14pFromCRI(x *runtimeapi.LinuxContainerResources) c14pRes {
	return c14pRes{x.GetCpuPeriod(), x.GetCpuQuota(), x.GetCpuShares(), x.GetMemoryLimitInBytes(),
		c14pCode(c14pCpus, x.GetCpusetCpus()), c14pCode(c14pMems, x.GetCpusetMems())}
}

func c14pFromKoord(x *v1alpha1.LinuxContainerResources) c14pRes {
	return c14pRes{x.GetCpuPeriod(), x.GetCpuQuota(), x.GetCpuShares(), x.GetMemoryLimitInBytes(),
		c14pCode(c14pCpus, x.GetCpusetCpus()), c14pCode(c14pMems, x.GetCpusetMems())}
}

func (a c14pRes) toCRI(oom int64) *runtimeapi.LinuxContainerResources {
	return &runtimeapi.LinuxContainerResources{CpuPeriod: a.period, CpuQuota: a.quota, CpuShares: a.shares,
		MemoryLimitInBytes: a.mem, CpusetCpus: c14pCpus[a.cpus], CpusetMems: c14pMems[a.mems], OomScoreAdj: oom}
}

func (a c14pRes) toKoord(oom int64) *v1alpha1.LinuxContainerResources {
	return &v1alpha1.LinuxContainerResources{CpuPeriod: a.period, CpuQuota: a.quota, CpuShares: a.shares,
		MemoryLimitInBytes: a.mem, CpusetCpus: c14pCpus[a.cpus], CpusetMems: c14pMems[a.mems], OomScoreAdj: oom}
}

func c14pQuota(r *vRand) int64 {
	switch r.Intn(4) {
	case 0:
		return 0
	case 1:
		return -1
	case 2:
		return int64(r.Range(1000, 20000))
	default:
		return int64(r.Range(100000, 6400000))
	}
}

func c14pShares(r *vRand) int64 {
	switch r.Intn(4) {
	case 0:
		return 0
	case 1:
		return 2
	case 2:
		return int64(r.Range(3, 2000))
	default:
		return int64(r.Range(2001, 262144))
	}
}

func c14pMem(r *vRand, allowUnlimited bool) int64 {
	switch r.Intn(4) {
	case 0:
		return 0
	case 1:
		if allowUnlimited {
			return -1
		}
		return 0
	case 2:
		return int64(r.Range(1, 1<<20))
	default:
		return int64(1) << uint(r.Range(24, 40))
	}
}

func c14pPeriod(r *vRand) int64 {
	switch r.Intn(4) {
	case 0, 1:
		return 0
	case 2:
		return 100000
	default:
		return int64(r.Range(1000, 1000000))
	}
}

// what the kubelet sends
func c14pRequest(r *vRand, create bool) c14pRes {
	if !create && r.Chance(1, 3) {
		// the CPU manager's update: a cpuset and nothing else
		return c14pRes{cpus: r.Range(1, len(c14pCpus)-1)}
	}
	if !create && r.Chance(1, 4) {
		return c14pRes{}
	}
	a := c14pRes{period: c14pPeriod(r), quota: c14pQuota(r), shares: c14pShares(r), mem: c14pMem(r, r.Chance(1, 6)),
		cpus: r.Intn(len(c14pCpus)), mems: r.Intn(len(c14pMems))}
	if create && r.Chance(1, 2) {
		a.period = 100000 // the kubelet's default period
	}
	return a
}

// what the hook answers: koordlet echoes the resources it was shown and overrides what its hooks injected
// (batchresource: shares >= 2, quota -1 or >= 1000, memory -1 or the declared bytes), or a raw answer.
func c14pAnswer(r *vRand, seen *c14pRes) c14pRes {
	if seen != nil && r.Chance(7, 10) {
		b := *seen
		switch r.Intn(8) {
		case 0: // a pod the hooks leave alone
		case 1: // only a cpuset hook
			b.cpus = r.Intn(len(c14pCpus))
		default:
			b.shares = c14pShares(r)
			if b.shares == 0 {
				b.shares = 2
			}
			b.quota = c14pQuota(r)
			if b.quota == 0 || r.Chance(1, 3) {
				b.quota = -1
			}
			b.mem = c14pMem(r, true)
			if b.mem == 0 {
				b.mem = -1
			}
		}
		return b
	}
	return c14pRes{period: c14pPeriod(r), quota: c14pQuota(r), shares: c14pShares(r), mem: c14pMem(r, true),
		cpus: r.Intn(len(c14pCpus)), mems: r.Intn(len(c14pMems))}
}

type c14pStep struct {
	kind   int // 0 create, 1 update, 2 failover, 3 stop
	req    c14pRes
	k      int  // 0 no response, 1 response without resources, 2 response with resources
	ans    *c14pRes // fixed answer (directed cases); nil = generated after the hook request is known
	noLinx bool
}

type c14pWorld struct {
	h       *vHarness
	pod, id string
	// the oracle's own record, built from the observations only
	known   bool     // a checkpoint exists
	last    *c14pRes // resources the executor must remember (nil: none)
	created *c14pRes // resources right after the create step
}

// keep(f): is field f of an answer / request "unset" under the unchanged tree's rule
func c14pSet(f int, v int64) bool {
	if f == 1 { // quota: every non-zero value counts, -1 = unlimited
		return v != 0
	}
	return v > 0 // period, shares, memory, cpuset code
}

func (w *c14pWorld) step(r *vRand, st c14pStep) {
	h := w.h
	switch st.kind {
	case 2:
		h.Op("crifailover")
		h.Tag("criproxy:step:failover")
		ex := NewContainerResourceExecutor()
		if h.Guard(func() {
			if err := ex.ParseContainer(&runtimeapi.Container{Id: w.id, PodSandboxId: w.pod,
				Metadata: &runtimeapi.ContainerMetadata{Name: "c"}}); err != nil {
				panic(err)
			}
			ex.ResourceCheckPoint(&runtimeapi.CreateContainerResponse{ContainerId: w.id})
		}) {
			h.Obs("panic")
		}
		w.known, w.last, w.created = true, nil, nil
		return
	case 3:
		h.Op("cristop")
		h.Tag("criproxy:step:stop")
		ex := NewContainerResourceExecutor()
		req := &runtimeapi.StopContainerRequest{ContainerId: w.id}
		if h.Guard(func() {
			ex.ParseRequest(req)
			ex.DeleteCheckpointIfNeed(req)
		}) {
			h.Obs("panic")
		}
		w.known, w.last, w.created = false, nil, nil
		return
	}

	create := st.kind == 0
	oom := int64(r.Range(-998, 1000))
	var req interface{}
	var createReq *runtimeapi.CreateContainerRequest
	var updateReq *runtimeapi.UpdateContainerResourcesRequest
	if create {
		createReq = &runtimeapi.CreateContainerRequest{
			PodSandboxId: w.pod,
			Config: &runtimeapi.ContainerConfig{
				Metadata: &runtimeapi.ContainerMetadata{Name: "c"},
				Linux:    &runtimeapi.LinuxContainerConfig{},
			},
			SandboxConfig: &runtimeapi.PodSandboxConfig{Linux: &runtimeapi.LinuxPodSandboxConfig{CgroupParent: "/kubepods/besteffort/pod1"}},
		}
		if !st.noLinx {
			createReq.Config.Linux.Resources = st.req.toCRI(oom)
		}
		req = createReq
	} else {
		updateReq = &runtimeapi.UpdateContainerResourcesRequest{ContainerId: w.id, Linux: st.req.toCRI(0)}
		req = updateReq
	}

	ex := NewContainerResourceExecutor()
	var seen *c14pRes
	hk := "hk err"
	var ans c14pRes
	k := st.k
	panicked := h.Guard(func() {
		op, err := ex.ParseRequest(req)
		if err == nil && op == utils.ShouldCallHookPlugin {
			hreq, _ := ex.GenerateHookRequest().(*v1alpha1.ContainerResourceHookRequest)
			if cr := hreq.GetContainerResources(); cr != nil {
				v := c14pFromKoord(cr)
				seen = &v
				hk = "hk " + v.String()
			} else {
				hk = "hk none"
			}
		}
		// the answer is chosen knowing what the hook was shown (koordlet echoes it)
		if st.ans != nil {
			ans = *st.ans
		} else {
			ans = c14pAnswer(r, seen)
		}
		if err != nil || op != utils.ShouldCallHookPlugin {
			return
		}
		switch k {
		case 1:
			ex.UpdateRequest(&v1alpha1.ContainerResourceHookResponse{}, req)
		case 2:
			ex.UpdateRequest(&v1alpha1.ContainerResourceHookResponse{ContainerResources: ans.toKoord(0)}, req)
		}
		if create {
			ex.ResourceCheckPoint(&runtimeapi.CreateContainerResponse{ContainerId: w.id})
		}
		ex.DeleteCheckpointIfNeed(req)
	})
	name := "criupdate"
	if create {
		name = "cricreate"
	}
	h.Op("%s %s %d %s", name, st.req, k, ans)
	if panicked {
		h.Obs("panic")
		return
	}
	var out c14pRes
	if create {
		out = c14pFromCRI(createReq.GetConfig().GetLinux().GetResources())
	} else {
		out = c14pFromCRI(updateReq.GetLinux())
	}
	h.Obs("%s", hk)
	h.Obs("out %s", out)
	h.Tag(fmt.Sprintf("criproxy:step:%s:resp%d", name[3:], k))

	// ---- oracle ----
	kind := name[3:]
	if hk == "hk err" {
		// unknown container: no hook is called; nothing of the property to demand
		h.Tag("criproxy:unknown-container")
		if create {
			h.Fail("C14:criproxy:create-not-parsed", "create request of a known pod was not parsed")
		}
		return
	}
	if create {
		w.known = true
	}
	if seen == nil {
		// fail-over registration: the executor has no resources, both merges return nil
		h.Tag("criproxy:failover-no-resources")
		if k == 2 && (ans.quota != 0 || ans.shares > 0 || ans.mem > 0) {
			h.Tag("criproxy:answer-dropped-after-failover")
		}
		return
	}
	before := *seen
	if !create && w.last != nil {
		// kubelet's update request onto the remembered state: a set value wins, an unset one keeps the state
		for f := 0; f < 6; f++ {
			rv, bv, lv := st.req.field(f), before.field(f), w.last.field(f)
			if c14pSet(f, rv) {
				if bv != rv {
					h.Fail("C14:criproxy:update-request-dropped:"+c14pFieldName[f], "update request %s=%d, hook sees %d (remembered %d)", c14pFieldName[f], rv, bv, lv)
				}
			} else if f == 3 && rv == -1 && bv == -1 {
				// a kubelet "unlimited" taken over would be fine too (the unchanged tree keeps the remembered limit)
			} else if bv != lv && (w.created == nil || bv != w.created.field(f)) {
				h.Fail("C14:criproxy:checkpoint-lost:"+c14pFieldName[f], "update request leaves %s unset, remembered %d, hook sees %d", c14pFieldName[f], lv, bv)
			}
		}
	}
	switch k {
	case 0:
		// no answer: the request passes as sent
		for f := 0; f < 6; f++ {
			if out.field(f) != st.req.field(f) {
				h.Fail("C14:criproxy:request-changed-without-answer:"+c14pFieldName[f], "%s: no hook answer, sent %d, runtime gets %d", kind, st.req.field(f), out.field(f))
			}
		}
	case 1:
		for f := 0; f < 6; f++ {
			if out.field(f) != before.field(f) {
				h.Fail("C14:criproxy:original-lost:"+c14pFieldName[f], "%s: answer without resources, hook saw %d, runtime gets %d", kind, before.field(f), out.field(f))
			}
		}
	case 2:
		h.Nontrivial()
		for f := 0; f < 6; f++ {
			av, bv, ov := ans.field(f), before.field(f), out.field(f)
			switch {
			case c14pSet(f, av):
				if ov != av {
					fp := "C14:criproxy:hook-answer-dropped:" + c14pFieldName[f]
					if f == 1 && av == -1 {
						fp += ":unlimited"
						if bv > 0 {
							fp += "-over-finite:" + kind // the runtime keeps a stale finite quota
						}
					}
					h.Fail(fp, "%s: hook answers %s=%d over %d, runtime gets %d", kind, c14pFieldName[f], av, bv, ov)
				}
			case f == 3 && av == -1:
				// memory: the unchanged tree takes over only a positive answer; "unlimited" over a finite limit stays finite
				if ov != -1 && ov != bv {
					h.Fail("C14:criproxy:hook-answer-dropped:memory", "%s: hook answers memory=-1 over %d, runtime gets %d", kind, bv, ov)
				}
				if bv > 0 && ov == bv {
					h.Tag("criproxy:memory-unlimited-answer-dropped-over-finite")
				}
			case f >= 4:
				// an empty cpuset answer: no demand (the unchanged tree clears the string)
			default:
				if ov != bv {
					h.Fail("C14:criproxy:original-lost:"+c14pFieldName[f], "%s: hook leaves %s unset, hook saw %d, runtime gets %d", kind, c14pFieldName[f], bv, ov)
				}
			}
		}
		switch {
		case ans.quota == -1 && before.quota > 0:
			h.Tag("criproxy:quota:unlimited-over-finite:" + kind)
		case ans.quota == -1:
			h.Tag("criproxy:quota:unlimited-over-unset-or-unlimited")
		case ans.quota > 0:
			h.Tag("criproxy:quota:finite")
		default:
			h.Tag("criproxy:quota:unset")
		}
	}
	// what the executor must remember for the next step
	rem := before
	if k >= 1 {
		rem = out
	}
	w.last = &rem
	if create {
		c := rem
		w.created = &c
	}
}

func c14pRunCase(h *vHarness, r *vRand, idx int, steps []c14pStep) {
	w := &c14pWorld{h: h, pod: fmt.Sprintf("c14p-pod-%d", idx), id: fmt.Sprintf("c14p-ctr-%d", idx)}
	store.WritePodSandboxInfo(w.pod, &store.PodSandboxInfo{PodSandboxHookRequest: &v1alpha1.PodSandboxHookRequest{
		PodMeta:      &v1alpha1.PodSandboxMetadata{Name: "p", Namespace: "ns", Uid: w.pod},
		Labels:       map[string]string{"koordinator.sh/qosClass": "BE"},
		CgroupParent: "/kubepods/besteffort/pod1",
	}})
	defer store.DeletePodSandboxInfo(w.pod)
	defer store.DeleteContainerInfo(w.id)
	for _, st := range steps {
		w.step(r, st)
	}
}

func c14pDirected(idx int) []c14pStep {
	kub := c14pRes{period: 100000, shares: 2}
	fin := c14pRes{period: 100000, quota: 50000, shares: 512, mem: 1 << 30}
	unl := c14pRes{period: 100000, quota: -1, shares: 512, mem: 1 << 30}
	switch idx {
	case 0: // finite injected quota at create (checkpointed), CFS quota switched off before the update
		return []c14pStep{{kind: 0, req: kub, k: 2, ans: &fin}, {kind: 1, req: c14pRes{}, k: 2, ans: &unl}}
	case 1: // the same, the update is the CPU manager's cpuset update
		u := unl
		u.cpus = 2
		return []c14pStep{{kind: 0, req: kub, k: 2, ans: &fin}, {kind: 1, req: c14pRes{cpus: 2}, k: 2, ans: &u}}
	case 2: // kubelet sends a finite quota, the hook answers unlimited at create
		k := kub
		k.quota = 20000
		return []c14pStep{{kind: 0, req: k, k: 2, ans: &unl}}
	case 3: // kubelet's own update carries -1
		return []c14pStep{{kind: 0, req: kub, k: 2, ans: &fin}, {kind: 1, req: c14pRes{quota: -1}, k: 0}, {kind: 1, req: c14pRes{}, k: 1}}
	case 4: // memory: unlimited answer over a finite remembered limit (the unchanged tree keeps the finite one: tagged)
		m := fin
		m.mem = -1
		return []c14pStep{{kind: 0, req: kub, k: 2, ans: &fin}, {kind: 1, req: c14pRes{}, k: 2, ans: &m}}
	}
	return nil
}

func c14pRandomSteps(r *vRand) []c14pStep {
	var steps []c14pStep
	resp := func() int {
		switch r.Intn(10) {
		case 0:
			return 0
		case 1:
			return 1
		default:
			return 2
		}
	}
	switch r.Intn(12) {
	case 0: // update of a container nobody created
	case 1:
		steps = append(steps, c14pStep{kind: 2})
	default:
		steps = append(steps, c14pStep{kind: 0, req: c14pRequest(r, true), k: resp(), noLinx: r.Chance(1, 10)})
		if steps[0].noLinx {
			steps[0].req = c14pRes{}
		}
	}
	n := r.Range(1, 3)
	for i := 0; i < n; i++ {
		if r.Chance(1, 15) {
			steps = append(steps, c14pStep{kind: 3})
		}
		steps = append(steps, c14pStep{kind: 1, req: c14pRequest(r, false), k: resp()})
	}
	return steps
}

func TestVerifC14CriProxy(t *testing.T) {
	h := vOpen("C14")
	if h == nil {
		t.Skip("VERIF_OUT not set")
	}
	n := h.N(3000, 60000)
	for idx := 0; idx < n; idx++ {
		r := h.Begin(idx)
		if r == nil {
			continue
		}
		steps := c14pDirected(idx)
		if steps == nil {
			steps = c14pRandomSteps(r)
		} else {
			h.Tag("criproxy:directed")
		}
		c14pRunCase(h, r, idx, steps)
		h.End()
	}
	h.Close("cases 0-4 directed (finite injected quota at create, then an update whose hook answer is -1; kubelet -1; memory -1); " +
		"others: one container, create (or fail-over / unknown) then 1-3 UpdateContainerResources, kubelet values and hook answers " +
		"(koordlet-style echo + batchresource overrides, or raw) with quota in {0,-1,small,large}, memory in {0,-1,value}, cpuset strings; " +
		"non-trivial = at least one step where a hook answer with resources meets an executor that has resources")
}

// exhaustive small scope (thorough tier): every two-step history create -> update over
// request quota {0,-1,5000} x memory {0,1024}, hook outcome {no response, no resources, answer with
// quota {0,-1,7000} x shares {0,2} x memory {0,-1,2048}}.
func c14pExhVariants(create bool) []c14pStep {
	var out []c14pStep
	kind := 1
	if create {
		kind = 0
	}
	for _, q := range []int64{0, -1, 5000} {
		for _, m := range []int64{0, 1024} {
			req := c14pRes{quota: q, mem: m}
			if create {
				req.period, req.shares = 100000, 2
			}
			out = append(out, c14pStep{kind: kind, req: req, k: 0, ans: &c14pRes{}}, c14pStep{kind: kind, req: req, k: 1, ans: &c14pRes{}})
			for _, aq := range []int64{0, -1, 7000} {
				for _, as := range []int64{0, 2} {
					for _, am := range []int64{0, -1, 2048} {
						out = append(out, c14pStep{kind: kind, req: req, k: 2, ans: &c14pRes{quota: aq, shares: as, mem: am}})
					}
				}
			}
		}
	}
	return out
}

func TestVerifC14CriProxyExhaustive(t *testing.T) {
	h := vOpen("C14")
	if h == nil {
		t.Skip("VERIF_OUT not set")
	}
	cs, us := c14pExhVariants(true), c14pExhVariants(false)
	n := len(cs) * len(us)
	for idx := 0; idx < n; idx++ {
		r := h.Begin(idx)
		if r == nil {
			continue
		}
		c14pRunCase(h, r, idx, []c14pStep{cs[idx/len(us)], us[idx%len(us)]})
		h.End()
	}
	h.Close(fmt.Sprintf("all %d two-step histories create -> update over request quota {0,-1,5000} x memory {0,1024} and hook outcome "+
		"{no response, no resources, quota {0,-1,7000} x shares {0,2} x memory {0,-1,2048}}; non-trivial as in criproxy", n))
}
