//go:build verif

package resourceexecutor

import (
	"fmt"
	"os"
	"path/filepath"
	"testing"

	"github.com/koordinator-sh/koordinator/pkg/koordlet/audit"
	sysutil "github.com/koordinator-sh/koordinator/pkg/koordlet/util/system"
	"github.com/koordinator-sh/koordinator/pkg/util/cache"
)

// C12 harness `churn`: histories of LeveledUpdateBatch calls on ONE executor (cache carried over, entries
// fresh or force-expired) while the set of cgroup directories changes between the batches: a directory
// (with everything below it) does not exist during a batch (never created yet, or removed), is then created by
// "the runtime" with a content that is valid under its parent, and the next batch follows — typically asking the
// SAME target for it again and a tighter one for its ancestors.  Exercises the ignored-error (`cgroup dir not
// exist`) `continue` branches of both passes.  Same observations and oracle clauses as TestVerifC12, evaluated
// on the tree of the directories that exist.
//
// extra op lines:  rm <node>   /   mk <node> <value>       (see Driver/C12.lean)

type c12cTree struct {
	c12Tree
	exists []bool
}

func (t *c12cTree) validLive(vals []int64) bool {
	for c, p := range t.parent {
		if p >= 0 && t.exists[c] && t.exists[p] && !c12Le(t.res, vals[c], vals[p]) {
			return false
		}
	}
	return true
}

func (t *c12cTree) inspectLive() {
	for i, p := range t.paths {
		st, err := os.Stat(p)
		if !t.exists[i] {
			if err == nil {
				t.h.Obs("appeared %d", i) // the executor must not create files of missing cgroups
				t.parseBad = true
			}
			continue
		}
		if err != nil {
			t.h.Obs("gone %d", i)
			t.parseBad = true
			continue
		}
		if st.ModTime().Equal(c12Sentinel) {
			continue
		}
		b, _ := os.ReadFile(p)
		v, ok := c12ParseFile(t.res, string(b))
		if !ok {
			v = -3
			t.parseBad = true
		}
		t.h.Obs("w %d %d", i, v)
		t.writes = append(t.writes, [2]int64{int64(i), v})
		t.vals[i] = v
		t.kernelNormalize(i)
		t.arm(i)
		if t.checkPrefix && !t.parseBad && !t.validLive(t.vals) {
			t.prefixBad = true
		}
	}
}

type c12cWrap struct {
	ResourceUpdater
	t *c12cTree
}

func (w *c12cWrap) MergeUpdate() (ResourceUpdater, error) {
	m, err := w.ResourceUpdater.MergeUpdate()
	w.t.inspectLive()
	return m, err
}

func (w *c12cWrap) update() error {
	err := w.ResourceUpdater.update()
	w.t.inspectLive()
	return err
}

// c12cTighten: a hierarchy-valid assignment between "what the children asked before" and the previous target:
// leaves mostly keep their previous target, inner directories move down towards their children.
func c12cTighten(res int, parent []int, prev []int64, r *vRand) []int64 {
	nn := len(parent)
	lo := make([]int64, nn) // join of the children's previous targets
	leaf := make([]bool, nn)
	for i := range lo {
		leaf[i] = true
		if res != 0 {
			lo[i] = 0
		}
	}
	for c := nn - 1; c >= 1; c-- {
		p := parent[c]
		leaf[p] = false
		if res == 0 {
			lo[p] |= prev[c]
		} else if c12Le(res, lo[p], prev[c]) {
			lo[p] = prev[c]
		}
	}
	out := make([]int64, nn)
	for i := range out {
		switch {
		case leaf[i] && !r.Chance(1, 4):
			out[i] = prev[i]
		case res == 0:
			out[i] = lo[i] | (int64(r.next()) & prev[i])
			if r.Chance(1, 3) {
				out[i] = lo[i]
			}
		default:
			switch {
			case r.Chance(1, 3) || lo[i] == -1:
				out[i] = lo[i]
			case prev[i] == -1:
				out[i] = lo[i] + int64(r.Intn(100000))
			default:
				out[i] = lo[i] + r.Int63n(prev[i]-lo[i]+1)
			}
		}
		if leaf[i] && res == 0 && out[i] == 0 {
			out[i] = prev[i]
		}
	}
	return out
}

func TestVerifC12Churn(t *testing.T) {
	h := vOpen("C12")
	if h == nil {
		t.Skip("VERIF_OUT not set")
	}
	root := t.TempDir()
	sysutil.Conf.CgroupRootDir = root
	for _, res := range []sysutil.Resource{sysutil.MemoryMin, sysutil.MemoryLow, sysutil.MemoryHigh} {
		res.WithSupported(true, "verif")
	}
	defer sysutil.UseCgroupsV2.Store(false)

	n := h.N(3000, 60000)
	for idx := 0; idx < n; idx++ {
		r := h.Begin(idx)
		if r == nil {
			continue
		}
		res := r.Intn(5)
		if r.Chance(1, 12) {
			res = 5 // not mergeable: memory.limit_in_bytes (the missing-dir branch must not set skipMerge)
		}
		v2 := r.Bool()
		sysutil.UseCgroupsV2.Store(v2)
		file, err := sysutil.GetCgroupResource(c12ResTypes[res])
		if err != nil {
			t.Fatalf("resource %v: %v", c12ResTypes[res], err)
		}
		nn := r.Range(2, 6)
		maxDepth := 2
		if r.Chance(1, 10) {
			maxDepth = 3
		}
		parent := make([]int, nn)
		depth := make([]int, nn)
		parent[0] = -1
		for i := 1; i < nn; i++ {
			for {
				p := r.Intn(i)
				if r.Chance(1, 2) {
					p = i - 1
				}
				if depth[p] < maxDepth {
					parent[i], depth[i] = p, depth[p]+1
					break
				}
			}
		}
		universe := 4
		if r.Chance(1, 3) {
			universe = 8
		}
		old := c12ValidAssign(res, parent, r, universe)
		if res == 5 {
			for i := range old {
				if old[i] < 0 {
					old[i] = int64(r.Range(1, 100000))
				}
			}
		}
		tr := &c12cTree{}
		tr.c12Tree = c12Tree{h: h, res: res, v2: v2, file: file, parent: parent, vals: append([]int64(nil), old...)}
		tr.exists = make([]bool, nn)
		// initially missing: one non-root directory with everything below it (2/3 of the cases)
		missing := make([]bool, nn)
		if r.Chance(2, 3) {
			m := r.Range(1, nn-1)
			missing[m] = true
			for i := m + 1; i < nn; i++ {
				if missing[parent[i]] {
					missing[i] = true
				}
			}
		}
		for i := 0; i < nn; i++ {
			d := fmt.Sprintf("h%d", idx)
			if parent[i] >= 0 {
				d = filepath.Join(tr.dirs[parent[i]], fmt.Sprintf("n%d", i))
			}
			tr.dirs = append(tr.dirs, d)
			tr.paths = append(tr.paths, file.Path(d))
		}
		create := func(i int, v int64) {
			p := tr.paths[i]
			if err := os.MkdirAll(filepath.Dir(p), 0o755); err != nil {
				t.Fatal(err)
			}
			// cpuset strings are canonical in this stream (files and targets): needUpdate compares the Value() STRINGS
			// of the cached and the new updater while the model compares values; the two only differ when the same set
			// is requested in two spellings AND the cache is stale from outside (re-created dir), which this stream
			// generates.  Spelling variation is exercised by TestVerifC12, where the cache always describes the files.
			content := c12FileStr(res, v2, v, r)
			if res == 0 {
				content = c12SetStr(v, true)
			}
			if err := os.WriteFile(p, []byte(content), 0o644); err != nil {
				t.Fatal(err)
			}
			tr.exists[i] = true
			tr.vals[i] = v
			tr.arm(i)
		}
		pi := make([]int64, nn)
		for i, p := range parent {
			pi[i] = int64(p)
		}
		h.Op("tree %d %d %d %s %s", res, vB(v2), nn, vInts(pi), vInts(old))
		for i := 0; i < nn; i++ {
			if missing[i] {
				h.Op("rm %d", i)
			} else {
				create(i, old[i])
			}
		}
		h.Tag(fmt.Sprintf("res:%d:v2=%d", res, vB(v2)))
		h.Tag(fmt.Sprintf("nodes:%d", nn))

		e := &ResourceUpdateExecutorImpl{ResourceCache: cache.NewCacheDefault(), Config: NewDefaultConfig()}
		stop := make(chan struct{})
		e.Run(stop)

		seen := make([]bool, nn)       // existed while a batch ran: the executor may hold a cache entry
		lastVal := make([]int64, nn)   // content when it was removed
		stale := false                 // a directory re-appeared with a content the cache does not describe
		var prevTgt []int64
		nb := r.Range(2, 4)
		for b := 0; b < nb; b++ {
			// ---- the runtime: create missing directories, remove a subtree ----
			if b > 0 || r.Chance(1, 4) {
				for i := 1; i < nn; i++ {
					if tr.exists[i] || !tr.exists[parent[i]] || !r.Chance(2, 3) {
						continue
					}
					pv := tr.vals[parent[i]]
					v := pv // inherits the parent's setting
					switch {
					case seen[i] && !r.Chance(1, 4):
						v = lastVal[i] // re-created as it was: the cache still describes it
						if !c12Le(res, v, pv) {
							v = pv
						}
					case r.Bool():
						v = c12RandLe(res, pv, r, universe)
					}
					if res == 5 && v < 0 {
						v = int64(r.Range(1, 100000))
					}
					if seen[i] && v != lastVal[i] {
						stale = true
						h.Tag("env:recreated-different")
					}
					create(i, v)
					h.Op("mk %d %d", i, v)
					h.Tag("env:create")
				}
				if r.Chance(1, 6) {
					m := r.Range(1, nn-1)
					for i := m; i < nn; i++ {
						if (i == m || !tr.exists[parent[i]]) && tr.exists[i] {
							tr.exists[i] = false
							lastVal[i] = tr.vals[i]
							h.Op("rm %d", i)
							h.Tag("env:remove")
						}
					}
					_ = os.RemoveAll(filepath.Dir(tr.paths[m]))
				}
			}
			start := append([]int64(nil), tr.vals...)
			// ---- targets ----
			tgt := c12ValidAssign(res, parent, r, universe)
			shape := r.Intn(5)
			switch {
			case shape == 0 && prevTgt != nil: // the same request again
				copy(tgt, prevTgt)
			case shape <= 2 && prevTgt != nil: // same for the leaves, tighter for their ancestors
				copy(tgt, c12cTighten(res, parent, prevTgt, r))
				shape = 1
			case shape == 3: // tighten what is there
				copy(tgt, c12cTighten(res, parent, c12cFill(res, parent, start), r))
			}
			if res == 5 {
				for i := range tgt {
					if tgt[i] < 0 {
						tgt[i] = int64(r.Range(1, 100000))
					}
				}
			}
			prevTgt = append([]int64(nil), tgt...)
			in := make([]bool, nn)
			for i := range in {
				in[i] = !r.Chance(1, 12)
			}
			nl := 0
			for _, d := range depth {
				if d+1 > nl {
					nl = d + 1
				}
			}
			levels := make([][]int, nl)
			for _, i := range r.Perm(nn) {
				if in[i] {
					levels[depth[i]] = append(levels[depth[i]], i)
				}
			}
			expired := r.Chance(1, 5)
			e.Config.ResourceForceUpdateSeconds = 60
			if expired {
				e.Config.ResourceForceUpdateSeconds = -1
			}
			want := append([]int64(nil), start...)
			for i := range want {
				if in[i] && tr.exists[i] {
					want[i] = tgt[i]
				}
			}
			var eh *audit.EventHelper
			if r.Bool() {
				eh = &audit.EventHelper{}
			}
			ups := make([][]ResourceUpdater, len(levels))
			var lens, flat []int64
			for li, l := range levels {
				lens = append(lens, int64(len(l)))
				ups[li] = []ResourceUpdater{}
				for _, i := range l {
					ts := c12TgtStr(res, tgt[i], r)
					if res == 0 {
						ts = c12SetStr(tgt[i], true)
					}
					u, err := DefaultCgroupUpdaterFactory.New(c12ResTypes[res], tr.dirs[i], ts, eh)
					if err != nil {
						t.Fatalf("updater: %v", err)
					}
					ups[li] = append(ups[li], &c12cWrap{ResourceUpdater: u, t: tr})
					flat = append(flat, int64(i), tgt[i])
				}
			}
			h.Op("batch %d %d %s %s", vB(expired), len(levels), vInts(lens), vInts(flat))
			nMissing := 0
			for i := range in {
				if in[i] && !tr.exists[i] {
					nMissing++
				}
				if tr.exists[i] {
					seen[i] = true
				}
			}
			h.Tag(fmt.Sprintf("missing-in-batch:%d", nMissing))

			hier := res <= 4
			tr.writes = tr.writes[:0]
			tr.checkPrefix = hier && !stale && tr.validLive(start) && tr.validLive(want)
			tr.prefixBad, tr.parseBad = false, false
			if h.Guard(func() { e.LeveledUpdateBatch(ups) }) {
				h.Obs("panic")
			}
			final := append([]int64(nil), start...)
			for i, p := range tr.paths {
				if !tr.exists[i] {
					continue
				}
				bts, _ := os.ReadFile(p)
				v, ok := c12ParseFile(res, string(bts))
				if !ok {
					v = -3
				}
				final[i] = v
			}
			h.Obs("st %s", vInts(final))

			// ---------------- property oracle (clauses of TestVerifC12, on the existing tree) ----------------
			changed := 0
			for i := range want {
				if want[i] != start[i] {
					changed++
				}
			}
			switch {
			case !hier:
				h.Tag("oracle:not-hierarchical")
			case stale:
				h.Tag("oracle:outside-quantifier:stale-cache") // CacheOK broken by the environment, not by the executor
			default:
				if tr.checkPrefix {
					h.Tag("oracle:full")
					if changed > 0 {
						h.Nontrivial()
					}
					if tr.prefixBad {
						h.Fail("C12:invalid-intermediate", "after some write a child exceeds its parent (res %d, exists %v, start %v, target %v, writes %v)", res, tr.exists, start, want, tr.writes)
					}
				} else {
					h.Tag("oracle:final-only")
				}
				for i := range want {
					if final[i] != want[i] {
						h.Fail("C12:final-not-target", "dir %d holds %d, target %d (res %d v2 %v, exists %v, start %v, target %v)", i, final[i], want[i], res, v2, tr.exists, start, want)
						break
					}
				}
				if !(res == 1 && v2) {
					cur := append([]int64(nil), start...)
					for _, w := range tr.writes {
						i, v := int(w[0]), w[1]
						if want[i] == start[i] {
							h.Fail("C12:redundant-write", "dir %d is unchanged (%d) but was written with %d", i, start[i], v)
							break
						}
						if cur[i] == v {
							h.Fail("C12:redundant-write", "dir %d rewritten with the value %d it already holds", i, v)
							break
						}
						cur[i] = v
					}
				}
			}
			h.Tag(fmt.Sprintf("writes:%d", c12Bucket(len(tr.writes))))
			h.Tag(fmt.Sprintf("shape:%d", shape))
		}
		close(stop)
		h.End()
		_ = os.RemoveAll(filepath.Join(root, fmt.Sprintf("h%d", idx)))
		if !v2 {
			for _, sub := range []string{"cpuset", "cpu", "memory"} {
				_ = os.RemoveAll(filepath.Join(root, sub, fmt.Sprintf("h%d", idx)))
			}
		}
	}
	h.Close("one cgroup tree (2-6 dirs, 2-4 levels), one resource, cgroup v1/v2, 2/3 with a sub-tree that does not exist at first; 2-4 LeveledUpdateBatch calls on one executor (updaters for ALL dirs, missing ones included), " +
		"between the batches the runtime creates missing dirs (content = parent's, random within the parent's, or as it was when removed) and removes sub-trees (1/6); targets: fresh / the same again / same for leaves + tighter for ancestors / tighten current; cache fresh or force-expired (1/5); " +
		"a dir re-created with a content other than the one it had (stale cache by the environment) switches the oracle off for the rest of the history; non-trivial = full oracle and >= 1 dir changes; distinct by op lines")
}

// c12cFill: make an assignment hierarchy-valid by raising parents to the join of their children.
func c12cFill(res int, parent []int, v []int64) []int64 {
	out := append([]int64(nil), v...)
	for c := len(parent) - 1; c >= 1; c-- {
		p := parent[c]
		if res == 0 {
			out[p] |= out[c]
		} else if !c12Le(res, out[c], out[p]) {
			out[p] = out[c]
		}
	}
	return out
}
