//go:build verif

package resourceexecutor

import (
	"fmt"
	"os"
	"path/filepath"
	"testing"

	sysutil "github.com/koordinator-sh/koordinator/pkg/koordlet/util/system"
	"github.com/koordinator-sh/koordinator/pkg/util/cache"
)

// C12 harness `exhaustive` (thorough tier only): EVERY cpuset.cpus rewrite of a small tree — every tree shape,
// every hierarchy-valid start assignment and every hierarchy-valid target assignment — one LeveledUpdateBatch
// (levels = depths) on a fresh executor each:
//   * all trees with 1-3 dirs over the CPU universe {0..3} (16 sets per dir),
//   * all trees with 4 dirs over the CPU universe {0..2} (8 sets per dir)
// (4 dirs over {0..3} would be 62 million rewrites).  Same observations and oracle clauses as TestVerifC12.

func TestVerifC12Exhaustive(t *testing.T) {
	h := vOpen("C12")
	if h == nil {
		t.Skip("VERIF_OUT not set")
	}
	if h.Tier != "thorough" && os.Getenv("VERIF_C12_EXH") == "" {
		t.Skip("thorough tier only")
	}
	// 1.4 million rewrites: use a memory file system when there is one (5x faster than the disk TMPDIR)
	root := t.TempDir()
	if d, err := os.MkdirTemp("/dev/shm", "verif-c12-exh-"); err == nil {
		root = d
		defer os.RemoveAll(d)
	}
	sysutil.Conf.CgroupRootDir = root
	sysutil.UseCgroupsV2.Store(false)
	file, err := sysutil.GetCgroupResource(sysutil.CPUSetCPUSName)
	if err != nil {
		t.Fatal(err)
	}
	maxCases := vEnvInt("VERIF_C12_EXH_MAX", 1<<30)
	idx := 0
	shapes := 0
	// the enumeration does not depend on the seed: the additional seeds of the thorough tier (seed + k*1000003)
	// only re-run the part with <= 2 dirs instead of repeating all 1.4 million rewrites
	maxDirs := 4
	if h.Seed >= 1000003 {
		maxDirs = 2
	}
	for nn := 1; nn <= maxDirs; nn++ {
		universe := 4
		if nn == 4 {
			universe = 3
		}
		nsets := int64(1) << uint(universe)
		// every parent array with parent[i] < i
		parent := make([]int, nn)
		parent[0] = -1
		var shapesRec func(i int)
		shapesRec = func(i int) {
			if i < nn {
				for p := 0; p < i; p++ {
					parent[i] = p
					shapesRec(i + 1)
				}
				return
			}
			shapes++
			par := append([]int(nil), parent...)
			depth := make([]int, nn)
			nl := 1
			for k := 1; k < nn; k++ {
				depth[k] = depth[par[k]] + 1
				if depth[k]+1 > nl {
					nl = depth[k] + 1
				}
			}
			// the dirs of this shape are created once and reused
			tr := &c12Tree{h: h, res: 0, file: file, parent: par, vals: make([]int64, nn)}
			for k := 0; k < nn; k++ {
				d := fmt.Sprintf("x%d", shapes)
				if par[k] >= 0 {
					d = filepath.Join(tr.dirs[par[k]], fmt.Sprintf("n%d", k))
				}
				tr.dirs = append(tr.dirs, d)
				p := file.Path(d)
				tr.paths = append(tr.paths, p)
				if err := os.MkdirAll(filepath.Dir(p), 0o755); err != nil {
					t.Fatal(err)
				}
			}
			// all hierarchy-valid assignments
			var assigns [][]int64
			cur := make([]int64, nn)
			var asg func(k int)
			asg = func(k int) {
				if k == nn {
					assigns = append(assigns, append([]int64(nil), cur...))
					return
				}
				for v := int64(0); v < nsets; v++ {
					if k > 0 && v&^cur[par[k]] != 0 {
						continue
					}
					cur[k] = v
					asg(k + 1)
				}
			}
			asg(0)
			pi := make([]int64, nn)
			for k, p := range par {
				pi[k] = int64(p)
			}
			levels := make([][]int, nl)
			for k := 0; k < nn; k++ {
				levels[depth[k]] = append(levels[depth[k]], k)
			}
			var lens []int64
			for _, l := range levels {
				lens = append(lens, int64(len(l)))
			}
			for _, old := range assigns {
				for _, tgt := range assigns {
					if idx >= maxCases {
						return
					}
					r := h.Begin(idx)
					idx++
					if r == nil {
						continue
					}
					copy(tr.vals, old)
					for k := 0; k < nn; k++ {
						if err := os.WriteFile(tr.paths[k], []byte(c12SetStr(old[k], true)), 0o644); err != nil {
							t.Fatal(err)
						}
						tr.arm(k)
					}
					h.Op("tree 0 0 %d %s %s", nn, vInts(pi), vInts(old))
					e := &ResourceUpdateExecutorImpl{ResourceCache: cache.NewCacheDefault(), Config: NewDefaultConfig()}
					e.gcStarted = true // what Run() sets; no GC goroutine is needed for one batch
					ups := make([][]ResourceUpdater, nl)
					var flat []int64
					for li, l := range levels {
						for _, k := range l {
							u, err := DefaultCgroupUpdaterFactory.New(sysutil.CPUSetCPUSName, tr.dirs[k], c12SetStr(tgt[k], true), nil)
							if err != nil {
								t.Fatalf("updater: %v", err)
							}
							ups[li] = append(ups[li], &c12Wrap{ResourceUpdater: u, t: tr})
							flat = append(flat, int64(k), tgt[k])
						}
					}
					h.Op("batch 0 %d %s %s", nl, vInts(lens), vInts(flat))
					tr.writes = tr.writes[:0]
					tr.checkPrefix, tr.prefixBad, tr.parseBad = true, false, false
					if h.Guard(func() { e.LeveledUpdateBatch(ups) }) {
						h.Obs("panic")
					}
					final := make([]int64, nn)
					for k, p := range tr.paths {
						bts, _ := os.ReadFile(p)
						v, ok := c12ParseFile(0, string(bts))
						if !ok {
							v = -3
						}
						final[k] = v
					}
					h.Obs("st %s", vInts(final))
					changed := false
					for k := range tgt {
						if tgt[k] != old[k] {
							changed = true
						}
					}
					if changed {
						h.Nontrivial()
					}
					if tr.prefixBad {
						h.Fail("C12:invalid-intermediate", "after some write a child exceeds its parent (parents %v, start %v, target %v, writes %v)", par, old, tgt, tr.writes)
					}
					for k := range tgt {
						if final[k] != tgt[k] {
							h.Fail("C12:final-not-target", "dir %d holds %d, target %d (parents %v, start %v, target %v)", k, final[k], tgt[k], par, old, tgt)
							break
						}
					}
					curv := append([]int64(nil), old...)
					for _, w := range tr.writes {
						k, v := int(w[0]), w[1]
						if tgt[k] == old[k] {
							h.Fail("C12:redundant-write", "dir %d is unchanged (%d) but was written with %d", k, old[k], v)
							break
						}
						if curv[k] == v {
							h.Fail("C12:redundant-write", "dir %d rewritten with the value %d it already holds", k, v)
							break
						}
						curv[k] = v
					}
					h.Tag(fmt.Sprintf("nodes:%d", nn))
					h.Tag(fmt.Sprintf("writes:%d", len(tr.writes)))
					h.End()
				}
			}
		}
		shapesRec(1)
	}
	h.Extra("exhaustive", fmt.Sprintf("%d tree shapes, %d rewrites", shapes, idx))
	h.Close("exhaustive: every tree shape with 1-3 dirs x every valid start x every valid target over CPU universe {0..3}, and with 4 dirs over {0..2}; one LeveledUpdateBatch (levels = depths) on a fresh executor; non-trivial = some dir changes")
}
