//go:build verif

package resourceexecutor

import (
	"fmt"
	"os"
	"path/filepath"
	"testing"

	"github.com/koordinator-sh/koordinator/pkg/koordlet/audit"
	sysutil "github.com/koordinator-sh/koordinator/pkg/koordlet/util/system"
	"github.com/koordinator-sh/koordinator/pkg/util/cache"
)

// C12 harness `kinds`: LeveledUpdateBatch on batches whose updater objects have MIXED kinds (Model/C12Kind.lean).
// The kind of an updater is decided by the constructor its caller used, not by the resource; a batch with one
// non-mergeable updater is outside leveled_batch_valid_needs_mergeable (tagged, final contents still checked),
// a batch of mergeable updaters - whichever mergeable constructor built them - gets the full oracle.

func TestVerifC12Kinds(t *testing.T) {
	h := vOpen("C12")
	if h == nil {
		t.Skip("VERIF_OUT not set")
	}
	root := t.TempDir()
	sysutil.Conf.CgroupRootDir = root
	for _, res := range []sysutil.Resource{sysutil.MemoryMin, sysutil.MemoryLow, sysutil.MemoryHigh} {
		res.WithSupported(true, "verif")
	}
	defer sysutil.UseCgroupsV2.Store(false)

	n := h.N(1500, 20000)
	for idx := 0; idx < n; idx++ {
		r := h.Begin(idx)
		if r == nil {
			continue
		}
		res := r.Intn(5)
		if r.Chance(1, 3) {
			res = 0
		}
		v2 := r.Bool()
		sysutil.UseCgroupsV2.Store(v2)
		file, err := sysutil.GetCgroupResource(c12ResTypes[res])
		if err != nil {
			t.Fatalf("resource %v: %v", c12ResTypes[res], err)
		}
		// tree: nodes in BFS-like order, parent index < child index, depth <= 3 levels (rarely 4)
		nn := r.Range(1, 5)
		if r.Chance(1, 8) {
			nn = r.Range(6, 8)
		}
		maxDepth := 2
		if r.Chance(1, 10) {
			maxDepth = 3
		}
		parent := make([]int, nn)
		depth := make([]int, nn)
		parent[0] = -1
		for i := 1; i < nn; i++ {
			for {
				p := r.Intn(i)
				if r.Chance(1, 2) {
					p = i - 1 // favour chains
				}
				if depth[p] < maxDepth {
					parent[i], depth[i] = p, depth[p]+1
					break
				}
			}
		}
		universe := 4
		if r.Chance(1, 3) {
			universe = 8
		}
		malformed := r.Chance(1, 10)
		old := c12ValidAssign(res, parent, r, universe)
		if malformed && r.Chance(1, 3) && nn > 1 {
			// start from an invalid hierarchy
			c := r.Range(1, nn-1)
			if res == 0 {
				old[c] = old[parent[c]] | int64(1)<<uint(universe)
			} else if old[parent[c]] != -1 {
				old[c] = old[parent[c]] + 1 + int64(r.Intn(5000))
			}
		}
		tr := &c12Tree{h: h, res: res, v2: v2, file: file, parent: parent, vals: append([]int64(nil), old...)}
		for i := 0; i < nn; i++ {
			d := fmt.Sprintf("k%d", idx)
			if parent[i] >= 0 {
				d = filepath.Join(tr.dirs[parent[i]], fmt.Sprintf("n%d", i))
			}
			tr.dirs = append(tr.dirs, d)
			p := file.Path(d)
			tr.paths = append(tr.paths, p)
			if err := os.MkdirAll(filepath.Dir(p), 0o755); err != nil {
				t.Fatal(err)
			}
			if err := os.WriteFile(p, []byte(c12FileStr(res, v2, old[i], r)), 0o644); err != nil {
				t.Fatal(err)
			}
			tr.arm(i)
		}
		pi := make([]int64, nn)
		for i, p := range parent {
			pi[i] = int64(p)
		}
		h.Op("tree %d %d %d %s %s", res, vB(v2), nn, vInts(pi), vInts(old))
		h.Tag(fmt.Sprintf("res:%d:v2=%d", res, vB(v2)))
		h.Tag(fmt.Sprintf("nodes:%d", nn))

		e := &ResourceUpdateExecutorImpl{ResourceCache: cache.NewCacheDefault(), Config: NewDefaultConfig()}
		stop := make(chan struct{})
		e.Run(stop)

		nb := r.Range(1, 3)
		for b := 0; b < nb; b++ {
			start := append([]int64(nil), tr.vals...)
			// target: valid assignment; shapes: fresh / grow / shrink / shift / unchanged / back to start
			tgt := c12ValidAssign(res, parent, r, universe)
			shape := r.Intn(8)
			switch shape {
			case 0: // unchanged
				copy(tgt, start)
			case 1: // shift (CPU sets): move every set by the same offset inside a doubled universe
				if res == 0 {
					for i := range tgt {
						tgt[i] = start[i] << uint(universe)
					}
				}
			case 2: // everything unlimited / full set
				for i := range tgt {
					if res == 0 {
						tgt[i] = 1<<uint(universe) - 1
					} else {
						tgt[i] = -1
					}
				}
			case 3: // only some nodes change
				for i := range tgt {
					if r.Bool() {
						tgt[i] = start[i]
					}
				}
			}
			// which nodes take part
			in := make([]bool, nn)
			for i := range in {
				in[i] = !r.Chance(1, 12)
			}
			// levels by depth, random order inside a level
			nl := 0
			for _, d := range depth {
				if d+1 > nl {
					nl = d + 1
				}
			}
			levels := make([][]int, nl)
			for _, i := range r.Perm(nn) {
				if in[i] {
					levels[depth[i]] = append(levels[depth[i]], i)
				}
			}
			tgtTok := append([]int64(nil), tgt...)
			ordered := true
			distinct := true
			allValid := true
			if malformed {
				switch r.Intn(4) {
				case 0: // levels passed bottom-up
					for i, j := 0, len(levels)-1; i < j; i, j = i+1, j-1 {
						levels[i], levels[j] = levels[j], levels[i]
					}
					ordered = nl <= 1
					h.Tag("malformed:reversed-levels")
				case 1: // a rejected value (resources with a validator only)
					if res != 1 && res != 5 {
						k := r.Intn(nn)
						if in[k] {
							tgtTok[k] = -2
							allValid = false
							h.Tag("malformed:invalid-value")
						}
					}
				case 2: // everything in one level
					var all []int
					for _, l := range levels {
						all = append(all, l...)
					}
					levels = [][]int{all}
					ordered = true
					for _, c := range all {
						if parent[c] >= 0 && in[parent[c]] {
							ordered = false
						}
					}
					h.Tag("malformed:single-level")
				case 3: // the same directory twice
					if len(levels[nl-1]) > 0 {
						levels[nl-1] = append(levels[nl-1], levels[nl-1][0])
						distinct = false
						h.Tag("malformed:duplicate")
					}
				}
			}
			// the arrangement the theorems ask for (ParentFirst): in the order the updaters are listed no dir comes before
			// its parent - a parent may share a level with its children when it is listed first (the bottom-up sweep
			// walks a level backwards); recomputed from the final levels, whatever the malformed stream did to them
			{
				pos := map[int]int{}
				k := 0
				for _, l := range levels {
					for _, i := range l {
						if _, seen := pos[i]; !seen {
							pos[i] = k
						}
						k++
					}
				}
				parentFirst := true
				for c, p := range parent {
					if p < 0 {
						continue
					}
					pc, okc := pos[c]
					pp, okp := pos[p]
					if okc && okp && pp > pc {
						parentFirst = false
					}
				}
				if parentFirst && !ordered {
					h.Tag("arrangement:parent-first-in-its-childrens-level")
				}
				ordered = parentFirst
			}
			expired := r.Chance(1, 4)
			e.Config.ResourceForceUpdateSeconds = 60
			if expired {
				e.Config.ResourceForceUpdateSeconds = -1
			}
			// intended final assignment: target on the participating nodes, current content elsewhere
			want := append([]int64(nil), start...)
			for i := range want {
				if in[i] {
					want[i] = tgt[i]
				}
			}
			// build the real updaters
			var eh *audit.EventHelper
			if r.Bool() {
				eh = &audit.EventHelper{}
			}
			allMergeable := r.Chance(1, 3)
			nonMerg := 0
			ups := make([][]ResourceUpdater, len(levels))
			var lens, flat []int64
			for li, l := range levels {
				lens = append(lens, int64(len(l)))
				ups[li] = []ResourceUpdater{}
				for _, i := range l {
					// the KIND is chosen per updater object: the registered (mergeable) constructor, or a constructor
					// without merge function (same update function)
					mergeable := allMergeable || r.Chance(2, 3)
					var u ResourceUpdater
					var err error
					val := c12TgtStr(res, tgtTok[i], r)
					switch {
					case mergeable && r.Bool():
						u, err = DefaultCgroupUpdaterFactory.New(c12ResTypes[res], tr.dirs[i], val, eh)
					case mergeable && res == 0:
						u, err = NewMergeableCgroupUpdaterWithCondition(c12ResTypes[res], tr.dirs[i], val, CommonCgroupUpdateFunc, MergeConditionIfCPUSetIsLooser, eh)
					case mergeable && res == 1:
						u, err = NewMergeableCgroupUpdaterWithCondition(c12ResTypes[res], tr.dirs[i], val, CgroupUpdateWithUnlimitedFunc, MergeConditionIfCFSQuotaIsLarger, eh)
					case mergeable:
						u, err = NewMergeableCgroupUpdaterIfValueLarger(c12ResTypes[res], tr.dirs[i], val, eh)
					case res == 1:
						u, err = NewCgroupUpdaterWithUpdateFunc(CgroupUpdateWithUnlimitedFunc)(c12ResTypes[res], tr.dirs[i], val, eh)
					default:
						u, err = NewCommonCgroupUpdater(c12ResTypes[res], tr.dirs[i], val, eh)
					}
					if err != nil {
						t.Fatalf("updater: %v", err)
					}
					if !mergeable {
						nonMerg++
					}
					ups[li] = append(ups[li], &c12Wrap{ResourceUpdater: u, t: tr})
					flat = append(flat, int64(i), tgtTok[i], int64(vB(mergeable)))
				}
			}
			h.Op("batchk %d %d %s %s", vB(expired), len(levels), vInts(lens), vInts(flat))

			hier := res <= 4
			startValid := c12Valid(res, parent, start)
			wantValid := c12Valid(res, parent, want)
			tr.writes = tr.writes[:0]
			tr.checkPrefix = hier && startValid && wantValid && ordered && distinct && allValid && nonMerg == 0
			h.Tag(fmt.Sprintf("kinds:nonmergeable:%d", c12Bucket(nonMerg)))
			tr.prefixBad, tr.parseBad = false, false
			if h.Guard(func() { e.LeveledUpdateBatch(ups) }) {
				h.Obs("panic")
			}
			// final snapshot straight from the files
			final := make([]int64, nn)
			for i, p := range tr.paths {
				bts, _ := os.ReadFile(p)
				v, ok := c12ParseFile(res, string(bts))
				if !ok {
					v = -3
				}
				final[i] = v
			}
			h.Obs("st %s", vInts(final))

			// ---------------- property oracle ----------------
			changed := 0
			for i := range want {
				if want[i] != start[i] {
					changed++
				}
			}
			switch {
			case !hier:
				h.Tag("kinds:oracle:not-hierarchical")
			case !(distinct && allValid):
				h.Tag("kinds:oracle:outside-quantifier")
			default:
				if tr.checkPrefix {
					h.Tag("kinds:oracle:full")
					if changed > 0 {
						h.Nontrivial()
					}
					if tr.prefixBad {
						h.Fail("C12:kinds-invalid-intermediate", "all updaters mergeable, yet after some write a child exceeds its parent (res %d, start %v, target %v, writes %v)", res, start, want, tr.writes)
					}
				} else {
					h.Tag("kinds:oracle:final-only")
					if nonMerg > 0 && hier && startValid && wantValid && ordered && distinct && allValid && c12kAnyInvalidPrefix(res, parent, start, tr.writes) {
						h.Tag("kinds:nonmergeable-batch-passes-invalid-hierarchy")
					}
				}
				for i := range want {
					if final[i] != want[i] {
						h.Fail("C12:kinds-final-not-target", "dir %d holds %d, target %d (res %d v2 %v, start %v, target %v)", i, final[i], want[i], res, v2, start, want)
						break
					}
				}
				if !(res == 1 && v2) { // cgroup-v2 cpu.max reads back "<q> <period>": rewrites are expected there (see props/C12.json)
					cur := append([]int64(nil), start...)
					for _, w := range tr.writes {
						i, v := int(w[0]), w[1]
						if want[i] == start[i] {
							h.Fail("C12:kinds-redundant-write", "dir %d is unchanged (%d) but was written with %d", i, start[i], v)
							break
						}
						if cur[i] == v {
							h.Fail("C12:kinds-redundant-write", "dir %d rewritten with the value %d it already holds", i, v)
							break
						}
						cur[i] = v
					}
				}
			}
			h.Tag(fmt.Sprintf("writes:%d", c12Bucket(len(tr.writes))))
			h.Tag(fmt.Sprintf("shape:%d", shape))
		}
		close(stop)
		h.End()
		_ = os.RemoveAll(filepath.Join(root, fmt.Sprintf("k%d", idx)))
		if !v2 {
			for _, sub := range []string{"cpuset", "cpu", "memory"} {
				_ = os.RemoveAll(filepath.Join(root, sub, fmt.Sprintf("k%d", idx)))
			}
		}
	}
	h.Close("as the `leveled` stream (trees of 1-8 dirs, five hierarchical resources, cgroup v1/v2, 1-3 batches, 10% malformed), but every updater OBJECT gets its own kind: " +
		"the registered constructor / an explicit mergeable constructor, or (1/3 of the updaters in 2/3 of the batches) a constructor without merge function " +
		"(NewCommonCgroupUpdater, NewCgroupUpdaterWithUpdateFunc(CgroupUpdateWithUnlimitedFunc)); full oracle only when all updaters of the batch are mergeable; " +
		"non-trivial = full oracle applied and >= 1 dir changes; distinct by op lines")
}

// did an invalid hierarchy occur after some write of the batch? (replayed from the recorded writes)
func c12kAnyInvalidPrefix(res int, parent []int, start []int64, writes [][2]int64) bool {
	cur := append([]int64(nil), start...)
	for _, w := range writes {
		if w[1] == -3 {
			return false
		}
		cur[int(w[0])] = w[1]
		if !c12Valid(res, parent, cur) {
			return true
		}
	}
	return false
}
