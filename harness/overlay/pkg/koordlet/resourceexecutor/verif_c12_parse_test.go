//go:build verif

package resourceexecutor

import (
	"fmt"
	"strconv"
	"strings"
	"testing"

	sysutil "github.com/koordinator-sh/koordinator/pkg/koordlet/util/system"
	"github.com/koordinator-sh/koordinator/pkg/util/cpuset"
)

// C12 harness `parse`: the string layer under the value domains — cpuset.Parse / CPUSet.String /
// IsEqualStrCpus and the three MergeCondition functions — called directly with canonical, non-canonical and
// malformed strings; the Lean model (Model/C12Parse.lean) works on the same character sequences.
// Strings cross the boundary as character codes.  Oracle (independent of the model): String∘Parse round trip,
// Parse(String(s)) = s, merged value is the union / the new value, needMerge iff not contained / larger.

func c12pCodes(s string) string {
	var b strings.Builder
	for i := 0; i < len(s); i++ {
		fmt.Fprintf(&b, " %d", s[i])
	}
	return b.String()
}

func c12pNum(r *vRand) string {
	switch r.Intn(12) {
	case 0:
		return "+" + strconv.Itoa(r.Intn(8))
	case 1:
		return "00" + strconv.Itoa(r.Intn(8))
	case 2:
		return strconv.Itoa(4090 + r.Intn(12)) // around maxAvailableCPUCount
	case 3:
		return strconv.Itoa(r.Intn(70))
	default:
		return strconv.Itoa(r.Intn(8))
	}
}

var c12pJunk = []string{"", " ", "x", "-", ",", "1-", "-1", "0-1-2", "3,,4", "1 ", " 1", "0x3", "1_0", "2147483648", "0-2147483648",
	"99999999999999999999", "5-3", "0-4096", "0-4097", "4097", "+", "+-1", "1,", ",1", "１", "0-+3", "\n", "0-3\n"}

func c12pSetStr(r *vRand) string {
	switch r.Intn(10) {
	case 0:
		return c12pJunk[r.Intn(len(c12pJunk))]
	case 1: // canonical string of a random small mask
		return c12SetStr(int64(r.next())&0xff, true)
	case 2:
		return c12SetStr(int64(r.next())&0xffff, r.Bool())
	}
	var parts []string
	for i, n := 0, r.Range(1, 4); i < n; i++ {
		if r.Bool() {
			parts = append(parts, c12pNum(r))
		} else {
			parts = append(parts, c12pNum(r)+"-"+c12pNum(r))
		}
	}
	s := strings.Join(parts, ",")
	if r.Chance(1, 15) && len(s) > 0 { // damage one character
		i := r.Intn(len(s))
		s = s[:i] + string("x- ,+\n"[r.Intn(6)]) + s[i+1:]
	}
	return s
}

var c12pLims = []string{"max", "-1", "0", "1", "1000", "100000", "200000", "9223372036854775807", "9223372036854775808",
	"-9223372036854775808", "-2", "+5", "007", "", " ", "max ", "Max", "1.5", "1e3", "x", "-", "max 100000", "100000 100000",
	"-1 100000", "max  100000", " max 100000 ", "max 100000 1", "max\t100000", "50000 100000\n", "max100000", "9223372036854775807 100000"}

func c12pLimStr(r *vRand) string {
	if r.Chance(1, 3) {
		return strconv.Itoa(r.Intn(300000))
	}
	if r.Chance(1, 6) {
		return strconv.Itoa(r.Intn(300000)) + " 100000"
	}
	return c12pLims[r.Intn(len(c12pLims))]
}

func c12pMaskOf(s cpuset.CPUSet) (string, bool) {
	var b strings.Builder
	for _, e := range s.ToSlice() {
		fmt.Fprintf(&b, " %d", e)
	}
	return b.String(), true
}

func TestVerifC12Parse(t *testing.T) {
	h := vOpen("C12")
	if h == nil {
		t.Skip("VERIF_OUT not set")
	}
	defer sysutil.UseCgroupsV2.Store(false)
	n := h.N(3000, 40000)
	for idx := 0; idx < n; idx++ {
		r := h.Begin(idx)
		if r == nil {
			continue
		}
		for k, nk := 0, r.Range(1, 6); k < nk; k++ {
			switch r.Intn(5) {
			case 0: // Parse
				s := c12pSetStr(r)
				h.Op("pcs%s", c12pCodes(s))
				set, err := cpuset.Parse(s)
				if err != nil {
					h.Obs("cs-err")
					h.Tag("pcs:err")
					break
				}
				el, _ := c12pMaskOf(set)
				h.Obs("cs%s", el)
				h.Tag("pcs:ok")
				h.Nontrivial()
				// oracle: printing and re-reading gives the same set; the independent reader agrees when it accepts
				// (only for ids <= maxAvailableCPUCount 4096: Parse does not range-check single elements, so
				//  Parse("4100,4101") succeeds while its String() "4100-4101" is rejected — a quirk kept in the model)
				inRange := true
				for _, e := range set.ToSlice() {
					if e > 4096 {
						inRange = false
						h.Tag("pcs:beyond-4096")
					}
				}
				back, err2 := cpuset.Parse(set.String())
				if inRange && (err2 != nil || !back.Equals(set)) {
					h.Fail("C12:parse-roundtrip", "Parse(String(Parse(%q))) differs", s)
				}
				if m, ok := c12ParseSet(s); ok && strings.TrimSpace(s) == s && !strings.ContainsAny(s, "+") {
					var want []string
					for i := 0; i < 62; i++ {
						if m&(1<<uint(i)) != 0 {
							want = append(want, strconv.Itoa(i))
						}
					}
					if strings.TrimSpace(el) != strings.Join(want, " ") {
						h.Fail("C12:parse-value", "Parse(%q) = {%s}, independent reader {%s}", s, el, strings.Join(want, " "))
					}
				}
			case 1: // String
				m := int64(r.next()) & (1<<uint(r.Range(1, 40)) - 1)
				var ids []int
				for i := 0; i < 62; i++ {
					if m&(1<<uint(i)) != 0 {
						ids = append(ids, i)
					}
				}
				h.Op("fcs %d", m)
				str := cpuset.NewCPUSet(ids...).String()
				h.Obs("str%s", c12pCodes(str))
				if got, ok := c12ParseSet(str); !ok || got != m {
					h.Fail("C12:parse-roundtrip", "String() of mask %d = %q reads back as %d", m, str, got)
				}
				h.Nontrivial()
			case 2: // IsEqualStrCpus
				a, b := c12pSetStr(r), c12pSetStr(r)
				if r.Chance(1, 3) {
					if set, err := cpuset.Parse(a); err == nil {
						b = set.String()
					}
				}
				h.Op("eqcs %d%s%s", len(a), c12pCodes(a), c12pCodes(b))
				eq := cpuset.IsEqualStrCpus(a, b)
				h.Obs("eq %d", vB(eq))
				h.Tag(fmt.Sprintf("eqcs:%d", vB(eq)))
			case 3: // MergeConditionIfCPUSetIsLooser
				o, nw := c12pSetStr(r), c12pSetStr(r)
				h.Op("mcs %d%s%s", len(o), c12pCodes(o), c12pCodes(nw))
				merged, need, err := MergeConditionIfCPUSetIsLooser(o, nw)
				if err != nil {
					h.Obs("m-err")
					h.Tag("mcs:err")
					break
				}
				h.Obs("m %d%s", vB(need), c12pCodes(merged))
				h.Tag(fmt.Sprintf("mcs:need=%d", vB(need)))
				h.Nontrivial()
				om, ok1 := c12ParseSet(o)
				nm, ok2 := c12ParseSet(nw)
				if ok1 && ok2 && !strings.ContainsAny(o+nw, "+ \n") {
					wantNeed := nm&^om != 0
					mm, ok3 := c12ParseSet(merged)
					wantVal := nm
					if wantNeed {
						wantVal = nm | om
					}
					if need != wantNeed || !ok3 || mm != wantVal {
						h.Fail("C12:merge-condition", "cpuset merge(%q,%q) = (%q,%v), want (%d,%v)", o, nw, merged, need, wantVal, wantNeed)
					}
				}
			default: // the two limit conditions
				kind := r.Intn(3)
				sysutil.UseCgroupsV2.Store(kind == 2)
				o, nw := c12pLimStr(r), c12pLimStr(r)
				h.Op("mlim %d %d%s%s", kind, len(o), c12pCodes(o), c12pCodes(nw))
				var merged string
				var need bool
				var err error
				if kind == 0 {
					merged, need, err = MergeConditionIfValueIsLarger(o, nw)
				} else {
					merged, need, err = MergeConditionIfCFSQuotaIsLarger(o, nw)
				}
				sysutil.UseCgroupsV2.Store(false)
				if err != nil {
					h.Obs("m-err")
					h.Tag(fmt.Sprintf("mlim%d:err", kind))
					break
				}
				h.Obs("m %d%s", vB(need), c12pCodes(merged))
				h.Tag(fmt.Sprintf("mlim%d:need=%d", kind, vB(need)))
				h.Nontrivial()
				if merged != nw {
					h.Fail("C12:merge-condition", "limit merge(%q,%q) returns %q, not the new value", o, nw, merged)
				}
			}
		}
		h.End()
	}
	h.Close("1-6 calls per case of cpuset.Parse / CPUSet.String / IsEqualStrCpus / MergeConditionIfCPUSetIsLooser / MergeConditionIfValueIsLarger / MergeConditionIfCFSQuotaIsLarger (cgroup v1, v2) on canonical range lists, " +
		"non-canonical ones (unsorted, overlapping, reversed ranges, '+n', leading zeros, ids around 4096), one damaged character, and a junk pool; limits from a pool with max/-1/int64 bounds/'q period' shapes/whitespace; " +
		"non-trivial = the call succeeds; distinct by op lines")
}
