//go:build verif

package resourceexecutor

import (
	"fmt"
	"os"
	"path/filepath"
	"strconv"
	"strings"
	"testing"
	"time"

	"github.com/koordinator-sh/koordinator/pkg/koordlet/audit"
	sysutil "github.com/koordinator-sh/koordinator/pkg/koordlet/util/system"
	"github.com/koordinator-sh/koordinator/pkg/util/cache"
)

// C12 harness: one case = one cgroup tree in a temp cgroup root and a short history of
// LeveledUpdateBatch calls on it (the REAL executor, the REAL updaters from
// DefaultCgroupUpdaterFactory, a fresh ResourceCache per case).  Every updater is wrapped so that
// after each single MergeUpdate()/update() call all files of the tree are inspected: a file whose
// mtime moved was written.  Observations: the sequence of writes (dir, parsed value) and the
// contents at the end of each batch.  The oracle re-evaluates the property on these snapshots.
//
// values: CPU sets are bitmasks, limits are integers with -1 = unlimited, -2 = a string the
// resource validator rejects.

var c12ResTypes = []sysutil.ResourceType{
	sysutil.CPUSetCPUSName, sysutil.CPUCFSQuotaName, sysutil.MemoryMinName, sysutil.MemoryLowName,
	sysutil.MemoryHighName, sysutil.MemoryLimitName,
}

var c12Sentinel = time.Unix(1000000, 0)

// ---- value <-> string (independent of pkg/util/cpuset) ----

func c12SetStr(mask int64, ranges bool) string {
	var parts []string
	for i := 0; i < 62; i++ {
		if mask&(1<<uint(i)) == 0 {
			continue
		}
		j := i
		if ranges {
			for j+1 < 62 && mask&(1<<uint(j+1)) != 0 {
				j++
			}
		}
		if j > i {
			parts = append(parts, fmt.Sprintf("%d-%d", i, j))
		} else {
			parts = append(parts, strconv.Itoa(i))
		}
		i = j
	}
	return strings.Join(parts, ",")
}

func c12ParseSet(s string) (int64, bool) {
	s = strings.TrimSpace(s)
	if s == "" {
		return 0, true
	}
	var mask int64
	for _, p := range strings.Split(s, ",") {
		b := strings.Split(p, "-")
		lo, err := strconv.Atoi(b[0])
		if err != nil || lo < 0 || lo >= 62 {
			return 0, false
		}
		hi := lo
		if len(b) == 2 {
			if hi, err = strconv.Atoi(b[1]); err != nil || hi < lo || hi >= 62 {
				return 0, false
			}
		} else if len(b) != 1 {
			return 0, false
		}
		for k := lo; k <= hi; k++ {
			mask |= 1 << uint(k)
		}
	}
	return mask, true
}

// string of a *target* value for the updater
func c12TgtStr(res int, v int64, r *vRand) string {
	switch {
	case v == -2:
		if res == 0 {
			return []string{"abc", "1-", "0-1-2", "3,,x"}[r.Intn(4)]
		}
		return []string{"-5", "x", "", "1.5"}[r.Intn(4)]
	case res == 0:
		return c12SetStr(v, !r.Chance(1, 5))
	case v == -1 && res == 1:
		return "-1"
	case v == -1:
		return "max"
	default:
		return strconv.FormatInt(v, 10)
	}
}

// initial file content as the kernel would show it
func c12FileStr(res int, v2 bool, v int64, r *vRand) string {
	if res == 0 {
		return c12SetStr(v, !r.Chance(1, 8))
	}
	s := strconv.FormatInt(v, 10)
	if v == -1 {
		s = "max"
		if res == 1 && !v2 {
			s = "-1"
		}
	}
	if res == 1 && v2 {
		s += " 100000"
	}
	return s
}

func c12ParseFile(res int, content string) (int64, bool) {
	content = strings.Trim(content, "\n")
	if res == 0 {
		return c12ParseSet(content)
	}
	f := strings.Fields(content)
	if len(f) < 1 || len(f) > 2 {
		return 0, false
	}
	if f[0] == "max" || f[0] == "-1" {
		return -1, true
	}
	v, err := strconv.ParseInt(f[0], 10, 64)
	if err != nil || v < 0 {
		return 0, false
	}
	return v, true
}

// ---- order on values, written from the statement: CPU set containment / limit no larger, -1 = unlimited ----

func c12Le(res int, a, b int64) bool {
	if res == 0 {
		return a&^b == 0
	}
	if b == -1 {
		return true
	}
	return a != -1 && a <= b
}

func c12Valid(res int, parent []int, vals []int64) bool {
	for c, p := range parent {
		if p >= 0 && !c12Le(res, vals[c], vals[p]) {
			return false
		}
	}
	return true
}

// ---- the tree under test ----

type c12Tree struct {
	h      *vHarness
	res    int
	v2     bool
	file   sysutil.Resource
	parent []int
	dirs   []string // parentDir of every node
	paths  []string
	vals   []int64 // last parsed contents
	writes [][2]int64
	// oracle state of the running batch
	checkPrefix bool
	prefixBad   bool
	parseBad    bool
}

func (t *c12Tree) arm(i int) { _ = os.Chtimes(t.paths[i], c12Sentinel, c12Sentinel) }

// fake kernel: cgroup-v2 cpu.max always reads back "<quota|max> <period>"
func (t *c12Tree) kernelNormalize(i int) {
	if t.res == 1 && t.v2 {
		b, _ := os.ReadFile(t.paths[i])
		f := strings.Fields(string(b))
		if len(f) >= 1 {
			q := f[0]
			if q == "-1" {
				q = "max"
			}
			_ = os.WriteFile(t.paths[i], []byte(q+" 100000"), 0644)
		}
	}
}

// inspect is called after every single updater call.
func (t *c12Tree) inspect() {
	for i, p := range t.paths {
		st, err := os.Stat(p)
		if err != nil {
			t.h.Obs("gone %d", i)
			t.parseBad = true
			continue
		}
		if st.ModTime().Equal(c12Sentinel) {
			continue
		}
		b, _ := os.ReadFile(p)
		v, ok := c12ParseFile(t.res, string(b))
		if !ok {
			v = -3
			t.parseBad = true
		}
		t.h.Obs("w %d %d", i, v)
		t.writes = append(t.writes, [2]int64{int64(i), v})
		if v == t.vals[i] {
			t.h.Tag("write:same-value")
		}
		t.vals[i] = v
		t.kernelNormalize(i)
		t.arm(i)
		if t.checkPrefix && !t.parseBad && !c12Valid(t.res, t.parent, t.vals) {
			t.prefixBad = true
		}
	}
}

type c12Wrap struct {
	ResourceUpdater
	t *c12Tree
}

func (w *c12Wrap) MergeUpdate() (ResourceUpdater, error) {
	m, err := w.ResourceUpdater.MergeUpdate()
	w.t.inspect()
	return m, err
}

func (w *c12Wrap) update() error {
	err := w.ResourceUpdater.update()
	w.t.inspect()
	return err
}

// ---- generators ----

var c12LimPool = []int64{0, 1000, 2000, 5000, 10000, 50000, 100000, 200000, 1 << 30, 1 << 40, -1}

func c12RandLe(res int, bound int64, r *vRand, universe int) int64 {
	if res == 0 {
		v := int64(r.next()) & bound
		if v == 0 && bound != 0 && !r.Chance(1, 10) {
			// prefer non-empty sets: keep one bit of bound
			for i := 0; i < universe; i++ {
				if bound&(1<<uint(i)) != 0 && r.Bool() {
					v |= 1 << uint(i)
				}
			}
		}
		if r.Chance(1, 4) {
			v = bound
		}
		return v
	}
	for tries := 0; tries < 20; tries++ {
		v := r.Pick(c12LimPool)
		if r.Chance(1, 4) && res != 1 {
			v = int64(r.Range(0, 300000))
		} else if r.Chance(1, 4) {
			v = int64(r.Range(1000, 300000))
		}
		if c12Le(res, v, bound) {
			return v
		}
	}
	return bound
}

func c12RandRoot(res int, r *vRand, universe int) int64 {
	if res == 0 {
		v := int64(r.next()) & (1<<uint(universe) - 1)
		if v == 0 {
			v = 1
		}
		if r.Chance(1, 3) {
			v = 1<<uint(universe) - 1
		}
		return v
	}
	if r.Chance(1, 3) {
		return -1
	}
	return c12RandLe(res, -1, r, universe)
}

// a hierarchy-valid assignment, generated top-down
func c12ValidAssign(res int, parent []int, r *vRand, universe int) []int64 {
	v := make([]int64, len(parent))
	for i, p := range parent {
		if p < 0 {
			v[i] = c12RandRoot(res, r, universe)
		} else {
			v[i] = c12RandLe(res, v[p], r, universe)
		}
	}
	return v
}

func TestVerifC12(t *testing.T) {
	h := vOpen("C12")
	if h == nil {
		t.Skip("VERIF_OUT not set")
	}
	root := t.TempDir()
	sysutil.Conf.CgroupRootDir = root
	for _, res := range []sysutil.Resource{sysutil.MemoryMin, sysutil.MemoryLow, sysutil.MemoryHigh} {
		res.WithSupported(true, "verif")
	}
	defer sysutil.UseCgroupsV2.Store(false)

	n := h.N(5000, 60000)
	for idx := 0; idx < n; idx++ {
		r := h.Begin(idx)
		if r == nil {
			continue
		}
		res := r.Intn(5)
		if r.Chance(1, 12) {
			res = 5 // not mergeable: memory.limit_in_bytes
		}
		if r.Chance(1, 3) {
			res = 0
		}
		v2 := r.Bool()
		sysutil.UseCgroupsV2.Store(v2)
		file, err := sysutil.GetCgroupResource(c12ResTypes[res])
		if err != nil {
			t.Fatalf("resource %v: %v", c12ResTypes[res], err)
		}
		// tree: nodes in BFS-like order, parent index < child index, depth <= 3 levels (rarely 4)
		nn := r.Range(1, 5)
		if r.Chance(1, 8) {
			nn = r.Range(6, 8)
		}
		maxDepth := 2
		if r.Chance(1, 10) {
			maxDepth = 3
		}
		parent := make([]int, nn)
		depth := make([]int, nn)
		parent[0] = -1
		for i := 1; i < nn; i++ {
			for {
				p := r.Intn(i)
				if r.Chance(1, 2) {
					p = i - 1 // favour chains
				}
				if depth[p] < maxDepth {
					parent[i], depth[i] = p, depth[p]+1
					break
				}
			}
		}
		universe := 4
		if r.Chance(1, 3) {
			universe = 8
		}
		malformed := r.Chance(1, 10)
		old := c12ValidAssign(res, parent, r, universe)
		if malformed && r.Chance(1, 3) && nn > 1 {
			// start from an invalid hierarchy
			c := r.Range(1, nn-1)
			if res == 0 {
				old[c] = old[parent[c]] | int64(1)<<uint(universe)
			} else if old[parent[c]] != -1 {
				old[c] = old[parent[c]] + 1 + int64(r.Intn(5000))
			}
		}
		tr := &c12Tree{h: h, res: res, v2: v2, file: file, parent: parent, vals: append([]int64(nil), old...)}
		for i := 0; i < nn; i++ {
			d := fmt.Sprintf("c%d", idx)
			if parent[i] >= 0 {
				d = filepath.Join(tr.dirs[parent[i]], fmt.Sprintf("n%d", i))
			}
			tr.dirs = append(tr.dirs, d)
			p := file.Path(d)
			tr.paths = append(tr.paths, p)
			if err := os.MkdirAll(filepath.Dir(p), 0o755); err != nil {
				t.Fatal(err)
			}
			if err := os.WriteFile(p, []byte(c12FileStr(res, v2, old[i], r)), 0o644); err != nil {
				t.Fatal(err)
			}
			tr.arm(i)
		}
		pi := make([]int64, nn)
		for i, p := range parent {
			pi[i] = int64(p)
		}
		h.Op("tree %d %d %d %s %s", res, vB(v2), nn, vInts(pi), vInts(old))
		h.Tag(fmt.Sprintf("res:%d:v2=%d", res, vB(v2)))
		h.Tag(fmt.Sprintf("nodes:%d", nn))

		e := &ResourceUpdateExecutorImpl{ResourceCache: cache.NewCacheDefault(), Config: NewDefaultConfig()}
		stop := make(chan struct{})
		e.Run(stop)

		nb := r.Range(1, 3)
		for b := 0; b < nb; b++ {
			start := append([]int64(nil), tr.vals...)
			// target: valid assignment; shapes: fresh / grow / shrink / shift / unchanged / back to start
			tgt := c12ValidAssign(res, parent, r, universe)
			shape := r.Intn(8)
			switch shape {
			case 0: // unchanged
				copy(tgt, start)
			case 1: // shift (CPU sets): move every set by the same offset inside a doubled universe
				if res == 0 {
					for i := range tgt {
						tgt[i] = start[i] << uint(universe)
					}
				}
			case 2: // everything unlimited / full set
				for i := range tgt {
					if res == 0 {
						tgt[i] = 1<<uint(universe) - 1
					} else {
						tgt[i] = -1
					}
				}
			case 3: // only some nodes change
				for i := range tgt {
					if r.Bool() {
						tgt[i] = start[i]
					}
				}
			}
			if res == 5 {
				for i := range tgt {
					if tgt[i] < 0 {
						tgt[i] = int64(r.Range(1, 100000))
					}
				}
			}
			// which nodes take part
			in := make([]bool, nn)
			for i := range in {
				in[i] = !r.Chance(1, 12)
			}
			// levels by depth, random order inside a level
			nl := 0
			for _, d := range depth {
				if d+1 > nl {
					nl = d + 1
				}
			}
			levels := make([][]int, nl)
			for _, i := range r.Perm(nn) {
				if in[i] {
					levels[depth[i]] = append(levels[depth[i]], i)
				}
			}
			tgtTok := append([]int64(nil), tgt...)
			ordered := true
			distinct := true
			allValid := true
			if malformed {
				switch r.Intn(4) {
				case 0: // levels passed bottom-up
					for i, j := 0, len(levels)-1; i < j; i, j = i+1, j-1 {
						levels[i], levels[j] = levels[j], levels[i]
					}
					ordered = nl <= 1
					h.Tag("malformed:reversed-levels")
				case 1: // a rejected value (resources with a validator only)
					if res != 1 && res != 5 {
						k := r.Intn(nn)
						if in[k] {
							tgtTok[k] = -2
							allValid = false
							h.Tag("malformed:invalid-value")
						}
					}
				case 2: // everything in one level
					var all []int
					for _, l := range levels {
						all = append(all, l...)
					}
					levels = [][]int{all}
					ordered = true
					for _, c := range all {
						if parent[c] >= 0 && in[parent[c]] {
							ordered = false
						}
					}
					h.Tag("malformed:single-level")
				case 3: // the same directory twice
					if len(levels[nl-1]) > 0 {
						levels[nl-1] = append(levels[nl-1], levels[nl-1][0])
						distinct = false
						h.Tag("malformed:duplicate")
					}
				}
			}
			// the arrangement the theorems ask for (ParentFirst): in the order the updaters are listed no dir comes before
			// its parent - a parent may share a level with its children when it is listed first (the bottom-up sweep
			// walks a level backwards); recomputed from the final levels, whatever the malformed stream did to them
			{
				pos := map[int]int{}
				k := 0
				for _, l := range levels {
					for _, i := range l {
						if _, seen := pos[i]; !seen {
							pos[i] = k
						}
						k++
					}
				}
				parentFirst := true
				for c, p := range parent {
					if p < 0 {
						continue
					}
					pc, okc := pos[c]
					pp, okp := pos[p]
					if okc && okp && pp > pc {
						parentFirst = false
					}
				}
				if parentFirst && !ordered {
					h.Tag("arrangement:parent-first-in-its-childrens-level")
				}
				ordered = parentFirst
			}
			expired := r.Chance(1, 4)
			e.Config.ResourceForceUpdateSeconds = 60
			if expired {
				e.Config.ResourceForceUpdateSeconds = -1
			}
			// intended final assignment: target on the participating nodes, current content elsewhere
			want := append([]int64(nil), start...)
			for i := range want {
				if in[i] {
					want[i] = tgt[i]
				}
			}
			// build the real updaters
			var eh *audit.EventHelper
			if r.Bool() {
				eh = &audit.EventHelper{}
			}
			ups := make([][]ResourceUpdater, len(levels))
			var lens, flat []int64
			for li, l := range levels {
				lens = append(lens, int64(len(l)))
				ups[li] = []ResourceUpdater{}
				for _, i := range l {
					u, err := DefaultCgroupUpdaterFactory.New(c12ResTypes[res], tr.dirs[i], c12TgtStr(res, tgtTok[i], r), eh)
					if err != nil {
						t.Fatalf("updater: %v", err)
					}
					ups[li] = append(ups[li], &c12Wrap{ResourceUpdater: u, t: tr})
					flat = append(flat, int64(i), tgtTok[i])
				}
			}
			h.Op("batch %d %d %s %s", vB(expired), len(levels), vInts(lens), vInts(flat))

			hier := res <= 4
			startValid := c12Valid(res, parent, start)
			wantValid := c12Valid(res, parent, want)
			tr.writes = tr.writes[:0]
			tr.checkPrefix = hier && startValid && wantValid && ordered && distinct && allValid
			tr.prefixBad, tr.parseBad = false, false
			if h.Guard(func() { e.LeveledUpdateBatch(ups) }) {
				h.Obs("panic")
			}
			// final snapshot straight from the files
			final := make([]int64, nn)
			for i, p := range tr.paths {
				bts, _ := os.ReadFile(p)
				v, ok := c12ParseFile(res, string(bts))
				if !ok {
					v = -3
				}
				final[i] = v
			}
			h.Obs("st %s", vInts(final))

			// ---------------- property oracle ----------------
			changed := 0
			for i := range want {
				if want[i] != start[i] {
					changed++
				}
			}
			switch {
			case !hier:
				h.Tag("oracle:not-hierarchical")
			case !(distinct && allValid):
				h.Tag("oracle:outside-quantifier")
			default:
				if tr.checkPrefix {
					h.Tag("oracle:full")
					if changed > 0 {
						h.Nontrivial()
					}
					if tr.prefixBad {
						h.Fail("C12:invalid-intermediate", "after some write a child exceeds its parent (res %d, start %v, target %v, writes %v)", res, start, want, tr.writes)
					}
				} else {
					h.Tag("oracle:final-only")
				}
				for i := range want {
					if final[i] != want[i] {
						h.Fail("C12:final-not-target", "dir %d holds %d, target %d (res %d v2 %v, start %v, target %v)", i, final[i], want[i], res, v2, start, want)
						break
					}
				}
				if !(res == 1 && v2) { // cgroup-v2 cpu.max reads back "<q> <period>": rewrites are expected there (see props/C12.json)
					cur := append([]int64(nil), start...)
					for _, w := range tr.writes {
						i, v := int(w[0]), w[1]
						if want[i] == start[i] {
							h.Fail("C12:redundant-write", "dir %d is unchanged (%d) but was written with %d", i, start[i], v)
							break
						}
						if cur[i] == v {
							h.Fail("C12:redundant-write", "dir %d rewritten with the value %d it already holds", i, v)
							break
						}
						cur[i] = v
					}
				}
			}
			h.Tag(fmt.Sprintf("writes:%d", c12Bucket(len(tr.writes))))
			h.Tag(fmt.Sprintf("shape:%d", shape))
		}
		close(stop)
		h.End()
		_ = os.RemoveAll(filepath.Join(root, fmt.Sprintf("c%d", idx)))
		if !v2 {
			for _, sub := range []string{"cpuset", "cpu", "memory"} {
				_ = os.RemoveAll(filepath.Join(root, sub, fmt.Sprintf("c%d", idx)))
			}
		}
	}
	h.Close("one cgroup tree (1-8 dirs, 1-4 levels) for one resource (cpuset.cpus / cpu.cfs_quota_us / memory.min|low|high / memory.limit_in_bytes), cgroup v1 or v2, " +
		"hierarchy-valid start, 1-3 LeveledUpdateBatch calls with hierarchy-valid targets (fresh/unchanged/shift/unlimited/partial), cache fresh or force-expired; " +
		"10% malformed (reversed levels, single level, rejected value, duplicate dir, invalid start); non-trivial = full oracle applied and >= 1 dir changes; distinct by op lines")
}

func c12Bucket(n int) int {
	switch {
	case n <= 2:
		return n
	case n <= 5:
		return 5
	default:
		return 9
	}
}
