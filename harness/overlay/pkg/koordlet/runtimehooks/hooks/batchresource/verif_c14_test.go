//go:build verif

package batchresource

import (
	"encoding/json"
	"fmt"
	"math"
	"testing"

	corev1 "k8s.io/api/core/v1"
	"k8s.io/apimachinery/pkg/api/resource"
	metav1 "k8s.io/apimachinery/pkg/apis/meta/v1"
	"k8s.io/utils/ptr"

	slov1alpha1 "github.com/koordinator-sh/koordinator/apis/slo/v1alpha1"

	apiext "github.com/koordinator-sh/koordinator/apis/extension"
	runtimeapi "github.com/koordinator-sh/koordinator/apis/runtime/v1alpha1"
	"github.com/koordinator-sh/koordinator/pkg/koordlet/runtimehooks/protocol"
)

// C14 harness: drive the real pod-/container-level hooks on generated extended-resource
// specs; emit the integer projection of the inputs as ops, the responses as observations,
// and evaluate the property oracle (written with the literals of the statement).

type c14Ctr struct{ req, lim, mem int64 } // -1 = not declared

func c14Amount(r *vRand) int64 {
	switch r.Intn(10) {
	case 0:
		return -1 // not declared
	case 1:
		return 0
	case 2:
		return int64(r.Range(1, 9)) // tiny (below clamps)
	case 3:
		return int64(r.Range(250000, 400000)) // around the shares max clamp (256000)
	case 4:
		if r.Bool() {
			return (int64(2*r.Range(0, 7)+1) << 29) // k.5 GiB
		}
		return int64(1) << uint(r.Range(20, 40)) // huge
	default:
		return int64(r.Range(10, 64000))
	}
}

func c14List(r *vRand, cpu, mem int64, cpuKeyAlways bool) corev1.ResourceList {
	// a nil list and a list lacking the key are both "not declared"
	if cpu < 0 && mem < 0 && r.Bool() {
		return nil
	}
	l := corev1.ResourceList{}
	if cpu >= 0 {
		l[apiext.BatchCPU] = *resource.NewQuantity(cpu, resource.DecimalSI)
	}
	if mem >= 0 {
		l[apiext.BatchMemory] = *resource.NewQuantity(mem, resource.BinarySI)
		if r.Chance(1, 4) {
			// the same number of bytes, but parsed from text: apimachinery may keep it in arbitrary-precision form
			l[apiext.BatchMemory] = resource.MustParse(fmt.Sprintf("%d", mem))
			if mem > 0 && mem%(1<<29) == 0 && mem%(1<<30) != 0 {
				l[apiext.BatchMemory] = resource.MustParse(fmt.Sprintf("%d.5Gi", mem>>30))
			}
		}
	}
	return l
}

func c14StdShares(m int64) int64 {
	if m <= 0 {
		return 2
	}
	s := m * 1024 / 1000
	if s < 2 {
		s = 2
	}
	if s > 262144 {
		s = 262144
	}
	return s
}

func c14StdQuota(m int64) int64 {
	if m <= 0 {
		return -1
	}
	q := m * 100
	if q < 1000 {
		q = 1000
	}
	return q
}

// qle: a no looser than b, -1 = unlimited
func c14QLe(a, b int64) bool { return b == -1 || (a != -1 && a <= b) }

func c14Show(res *protocol.Resources) (string, [3]int64, bool) {
	if res.CPUShares == nil && res.CFSQuota == nil && res.MemoryLimit == nil {
		return "untouched", [3]int64{}, false
	}
	if res.CPUShares == nil || res.CFSQuota == nil || res.MemoryLimit == nil {
		return "partial", [3]int64{}, false
	}
	return fmt.Sprintf("%d %d %d", *res.CPUShares, *res.CFSQuota, *res.MemoryLimit),
		[3]int64{*res.CPUShares, *res.CFSQuota, *res.MemoryLimit}, true
}

func TestVerifC14(t *testing.T) {
	h := vOpen("C14")
	if h == nil {
		t.Skip("VERIF_OUT not set")
	}
	n := h.N(4000, 120000)
	for idx := 0; idx < n; idx++ {
		r := h.Begin(idx)
		if r == nil {
			continue
		}
		nc := r.Range(0, 5)
		if r.Chance(1, 12) {
			nc = r.Range(6, 12)
		}
		ctrs := make([]c14Ctr, nc)
		spec := &apiext.ExtendedResourceSpec{Containers: map[string]apiext.ExtendedResourceContainerSpec{}}
		allLimited := r.Chance(1, 2) // steer half of the cases to fully limited pods
		for i := range ctrs {
			c := c14Ctr{req: c14Amount(r), lim: c14Amount(r), mem: c14Amount(r)}
			if allLimited {
				if c.lim <= 0 {
					c.lim = int64(r.Range(1, 30000))
				}
				if c.mem <= 0 {
					c.mem = int64(r.Range(1, 1<<30))
				}
			}
			ctrs[i] = c
			cs := apiext.ExtendedResourceContainerSpec{
				Requests: c14List(r, c.req, -1, false),
				Limits:   c14List(r, c.lim, c.mem, false),
			}
			spec.Containers[fmt.Sprintf("c%d", i)] = cs
		}
		// QoS marking: label, annotation only (old format, ignored by the code), other, none
		labels := map[string]string{}
		annotations := map[string]string{}
		qosKind := r.Intn(8)
		isBE := false
		switch qosKind {
		case 0:
			labels[apiext.LabelPodQoS] = string(apiext.QoSLS)
		case 1:
			annotations[apiext.LabelPodQoS] = string(apiext.QoSBE) // annotation way: not honoured by GetQoSClassByAttrs
		case 2:
			// no marking
		default:
			labels[apiext.LabelPodQoS] = string(apiext.QoSBE)
			isBE = true
		}
		hasSpec := !r.Chance(1, 10)
		viaAnnotation := r.Bool()

		// ---- history of rule callbacks on ONE plugin instance, then the hook calls ----
		p := newPlugin()
		lastRatio := int64(-100) // last validly configured ratio in hundredths; -100 = none configured
		lastCFS := true
		nEv := r.Range(0, 5)
		for e := 0; e < nEv; e++ {
			switch r.Intn(7) {
			case 0, 1, 2: // node with a valid ratio annotation; mostly >= 0.02 away from the last one, sometimes adjacent
				pct := int64(r.Range(50, 300))
				if lastRatio > 0 && r.Chance(1, 4) {
					pct = lastRatio + int64(r.Range(-2, 2))
					if pct <= 0 {
						pct = 1
					}
				}
				node := &corev1.Node{ObjectMeta: metav1.ObjectMeta{Name: "n", Annotations: map[string]string{
					apiext.AnnotationCPUNormalizationRatio: fmt.Sprintf("%d.%02d", pct/100, pct%100)}}}
				upd, err := p.parseRuleForNodeMeta(node)
				h.Op("rule node %d", pct)
				if err != nil {
					h.Obs("err")
				} else {
					h.Obs("upd %d", vB(upd))
				}
				lastRatio = pct
				h.Tag("ev:ratio")
			case 3: // annotation removed
				node := &corev1.Node{ObjectMeta: metav1.ObjectMeta{Name: "n"}}
				if r.Bool() {
					node.Annotations = map[string]string{"other": "x"}
				}
				upd, err := p.parseRuleForNodeMeta(node)
				h.Op("rule node -100")
				if err != nil {
					h.Obs("err")
				} else {
					h.Obs("upd %d", vB(upd))
				}
				lastRatio = -100
				h.Tag("ev:ratio-removed")
			case 4: // invalid annotation: the callback fails and the rule keeps its value
				bad := []string{"abc", "0", "-1.5", ""}[r.Intn(4)]
				node := &corev1.Node{ObjectMeta: metav1.ObjectMeta{Name: "n", Annotations: map[string]string{
					apiext.AnnotationCPUNormalizationRatio: bad}}}
				upd, err := p.parseRuleForNodeMeta(node)
				h.Op("rule nodebad")
				if err == nil {
					h.Obs("noerr %d", vB(upd))
				} else {
					h.Obs("upd 0")
				}
				h.Tag("ev:ratio-bad")
			default: // node SLO: CFS quota is disabled iff BE suppress is enabled with the cfsQuota policy
				enable, cfsPolicy := r.Bool(), r.Bool()
				spec := &slov1alpha1.NodeSLOSpec{ResourceUsedThresholdWithBE: &slov1alpha1.ResourceThresholdStrategy{
					Enable: ptr.To(enable), CPUSuppressPolicy: slov1alpha1.CPUSetPolicy}}
				if cfsPolicy {
					spec.ResourceUsedThresholdWithBE.CPUSuppressPolicy = slov1alpha1.CPUCfsQuotaPolicy
				}
				upd, err := p.parseRuleForNodeSLO(spec)
				want := !(enable && cfsPolicy)
				h.Op("rule slo %d", vB(want))
				if err != nil {
					h.Obs("err")
				} else {
					h.Obs("upd %d", vB(upd))
				}
				lastCFS = want
				h.Tag("ev:slo")
			}
		}
		cfs, effRatio := p.rule.GetCFSQuotaScaleRatio()
		pct := int64(math.Round(effRatio * 100))
		// oracle: the ratio in force is the one configured last (up to the code's 0.01 epsilon); none if none configured
		if cfs != lastCFS {
			h.Fail("C14:stale-cfs-switch", "cfs enabled=%v but the last node SLO says %v", cfs, lastCFS)
		}
		if cfs {
			if lastRatio < 0 && pct > 0 {
				h.Fail("C14:stale-ratio", "ratio %d/100 in force although the node configures none", pct)
			} else if lastRatio > 0 && (pct < lastRatio-1 || pct > lastRatio+1) {
				h.Fail("C14:stale-ratio", "ratio %d/100 in force but the node configures %d/100", pct, lastRatio)
			}
		}

		podCtx := &protocol.PodContext{}
		if hasSpec {
			if viaAnnotation {
				b, _ := json.Marshal(spec)
				annotations[apiext.AnnotationExtendedResourceSpec] = string(b)
				podCtx.Request.FromProxy(&runtimeapi.PodSandboxHookRequest{
					PodMeta: &runtimeapi.PodSandboxMetadata{Name: "p", Namespace: "ns", Uid: "u"}, Labels: labels, Annotations: annotations})
				if nc == 0 {
					// an empty container map is dropped by omitempty => the parsed spec has no Containers => treated as absent
					hasSpec = podCtx.Request.ExtendedResources != nil
				}
			} else {
				podCtx.Request.Labels = labels
				podCtx.Request.Annotations = annotations
				podCtx.Request.ExtendedResources = spec
			}
		} else {
			podCtx.Request.Labels = labels
			podCtx.Request.Annotations = annotations
		}

		flat := make([]int64, 0, 3*nc)
		for _, c := range ctrs {
			flat = append(flat, c.req, c.lim, c.mem)
		}
		h.Op("pod %d %d %d %s", vB(isBE), vB(hasSpec), nc, vInts(flat))
		h.Obs("eff %d %d", vB(cfs), pct)
		h.Tag(fmt.Sprintf("qos:%d", qosKind))
		h.Tag(fmt.Sprintf("n:%d", nc))
		if isBE && hasSpec && nc > 0 {
			h.Nontrivial()
		}

		var podOut [3]int64
		var podOK bool
		if h.Guard(func() { _ = p.SetPodResources(podCtx) }) {
			h.Obs("pod panic")
		} else {
			s, v, ok := c14Show(&podCtx.Response.Resources)
			podOut, podOK = v, ok
			h.Obs("pod %s", s)
		}
		scaled := cfs && pct > 100
		ratio := effRatio
		fscale := func(q int64) int64 { return int64(math.Ceil(float64(q) / ratio)) }
		if !isBE || !hasSpec {
			if podOK {
				h.Fail("C14:non-be-touched", "pod not BE/without spec but response set")
			}
		} else if podOK {
			var sumReq, sumLim, sumMem int64
			unlimCPU, unlimMem := false, false
			for _, c := range ctrs {
				if c.req > 0 {
					sumReq += c.req
				}
				if c.lim <= 0 {
					unlimCPU = true
				} else {
					sumLim += c.lim
				}
				if c.mem <= 0 {
					unlimMem = true
				} else {
					sumMem += c.mem
				}
			}
			if podOut[0] != c14StdShares(sumReq) {
				h.Fail("C14:pod-shares", "pod shares %d != std(%d)", podOut[0], sumReq)
			}
			wantQ := int64(-1)
			if cfs && !unlimCPU {
				wantQ = c14StdQuota(sumLim)
				if scaled && wantQ > 0 {
					wantQ = fscale(wantQ)
					if !(wantQ > 0 && wantQ <= c14StdQuota(sumLim)) {
						h.Fail("C14:float-assumption", "scale(%d)=%d violates 0<f(q)<=q", c14StdQuota(sumLim), wantQ)
					}
				}
			}
			if podOut[1] != wantQ {
				h.Fail("C14:pod-quota", "pod quota %d != %d", podOut[1], wantQ)
			}
			if unlimCPU && podOut[1] != -1 {
				h.Fail("C14:unlimited-propagates", "a container is unlimited but pod quota=%d", podOut[1])
			}
			wantM := sumMem
			if unlimMem {
				wantM = -1
			}
			if podOut[2] != wantM {
				h.Fail("C14:pod-mem", "pod mem %d != %d", podOut[2], wantM)
			}
			h.Tag(fmt.Sprintf("podquota:%s", map[bool]string{true: "unlimited", false: "limited"}[podOut[1] == -1]))
		} else {
			h.Fail("C14:be-not-set", "BE pod with spec but response not fully set")
		}

		for i, c := range ctrs {
			cctx := &protocol.ContainerContext{}
			cctx.Request.PodLabels = labels
			cctx.Request.PodAnnotations = annotations
			cctx.Request.ContainerMeta.Name = fmt.Sprintf("c%d", i)
			if hasSpec {
				if viaAnnotation {
					cctx.Request.FromProxy(&runtimeapi.ContainerResourceHookRequest{
						PodMeta:       &runtimeapi.PodSandboxMetadata{Name: "p", Namespace: "ns", Uid: "u"},
						ContainerMeta: &runtimeapi.ContainerMetadata{Name: fmt.Sprintf("c%d", i), Id: "containerd://x"},
						PodLabels:     labels, PodAnnotations: annotations})
				} else {
					cs := spec.Containers[fmt.Sprintf("c%d", i)]
					cctx.Request.ExtendedResources = &cs
				}
			}
			if h.Guard(func() { _ = p.SetContainerResources(cctx) }) {
				h.Obs("ctr panic")
				continue
			}
			s, v, ok := c14Show(&cctx.Response.Resources)
			h.Obs("ctr %s", s)
			if !isBE || !hasSpec {
				if ok {
					h.Fail("C14:non-be-touched", "container of non-BE pod touched")
				}
				continue
			}
			if !ok {
				h.Fail("C14:be-not-set", "BE container not fully set")
				continue
			}
			wantQ := int64(-1)
			if cfs {
				wantQ = c14StdQuota(c.lim)
				if scaled && wantQ > 0 {
					wantQ = fscale(wantQ)
				}
			}
			wantM := c.mem
			if wantM <= 0 {
				wantM = -1
			}
			if v[0] != c14StdShares(c.req) || v[1] != wantQ || v[2] != wantM {
				h.Fail("C14:container-conversion", "container %d got %v want %d %d %d", i, v, c14StdShares(c.req), wantQ, wantM)
			}
			if podOK {
				if v[0] > podOut[0] {
					h.Fail("C14:pod-tighter-shares", "container shares %d > pod %d", v[0], podOut[0])
				}
				if !c14QLe(v[1], podOut[1]) {
					h.Fail("C14:pod-tighter-quota", "container quota %d vs pod %d", v[1], podOut[1])
				}
				if !c14QLe(v[2], podOut[2]) {
					h.Fail("C14:pod-tighter-mem", "container mem %d vs pod %d", v[2], podOut[2])
				}
			}
		}
		h.End()
	}
	h.Close("one generated pod (0-12 containers; amounts missing/zero/tiny/clamp-boundary/huge; QoS by label/annotation/none; " +
		"0-5 rule callbacks first (node ratio set/changed/adjacent/removed/invalid, node SLO CFS switch) on one plugin instance; spec via annotation JSON or struct); non-trivial = BE pod with a spec and >=1 container; distinct by op line")
}

// ---- exhaustive small scope (thorough tier): every pod with <= 2 containers over a grid of amounts that sits on
// every clamp / rounding boundary of the conversions, x CFS on/off x ratio none/1.5 ----

func TestVerifC14Exhaustive(t *testing.T) {
	h := vOpen("C14")
	if h == nil {
		t.Skip("VERIF_OUT not set")
	}
	vals := []int64{-1, 0, 1, 9, 10, 1000, 255999, 256000, 256001}
	var ctrs []c14Ctr
	for _, a := range vals {
		for _, b := range vals {
			for _, c := range []int64{-1, 0, 1, 1 << 30} {
				ctrs = append(ctrs, c14Ctr{req: a, lim: b, mem: c})
			}
		}
	}
	idx := 0
	run := func(cs []c14Ctr, cfs bool, pct int64) {
		r := h.Begin(idx)
		idx++
		if r == nil {
			return
		}
		p := newPlugin()
		if !cfs {
			p.rule.UpdateCFSQuotaEnabled(false)
			h.Op("rule slo 0")
			h.Obs("upd 1")
		}
		if pct > 0 {
			p.rule.UpdateCPUNormalizationRatio(float64(pct) / 100)
			h.Op("rule node %d", pct)
			h.Obs("upd 1")
		}
		spec := &apiext.ExtendedResourceSpec{Containers: map[string]apiext.ExtendedResourceContainerSpec{}}
		flat := []int64{}
		for i, c := range cs {
			cs2 := apiext.ExtendedResourceContainerSpec{}
			if c.req >= 0 {
				cs2.Requests = corev1.ResourceList{apiext.BatchCPU: *resource.NewQuantity(c.req, resource.DecimalSI)}
			}
			if c.lim >= 0 || c.mem >= 0 {
				cs2.Limits = corev1.ResourceList{}
				if c.lim >= 0 {
					cs2.Limits[apiext.BatchCPU] = *resource.NewQuantity(c.lim, resource.DecimalSI)
				}
				if c.mem >= 0 {
					cs2.Limits[apiext.BatchMemory] = *resource.NewQuantity(c.mem, resource.BinarySI)
				}
			}
			spec.Containers[fmt.Sprintf("c%d", i)] = cs2
			flat = append(flat, c.req, c.lim, c.mem)
		}
		labels := map[string]string{apiext.LabelPodQoS: string(apiext.QoSBE)}
		podCtx := &protocol.PodContext{}
		podCtx.Request.Labels = labels
		podCtx.Request.ExtendedResources = spec
		h.Op("pod 1 1 %d %s", len(cs), vInts(flat))
		effPct := int64(-100)
		if cfs && pct > 0 {
			effPct = pct
		}
		h.Obs("eff %d %d", vB(cfs), effPct)
		_ = p.SetPodResources(podCtx)
		ps, pv, pok := c14Show(&podCtx.Response.Resources)
		h.Obs("pod %s", ps)
		if len(cs) > 0 {
			h.Nontrivial()
		}
		for i := range cs {
			cctx := &protocol.ContainerContext{}
			cctx.Request.PodLabels = labels
			c := spec.Containers[fmt.Sprintf("c%d", i)]
			cctx.Request.ExtendedResources = &c
			_ = p.SetContainerResources(cctx)
			s, v, ok := c14Show(&cctx.Response.Resources)
			h.Obs("ctr %s", s)
			if ok && pok {
				if v[0] > pv[0] || !c14QLe(v[1], pv[1]) || !c14QLe(v[2], pv[2]) {
					h.Fail("C14:pod-tighter-exhaustive", "container %d %v vs pod %v", i, v, pv)
				}
			}
		}
		h.End()
	}
	for _, cfs := range []bool{true, false} {
		for _, pct := range []int64{-1, 150} {
			run(nil, cfs, pct)
			for _, a := range ctrs {
				run([]c14Ctr{a}, cfs, pct)
			}
			if cfs && pct < 0 {
				for _, a := range ctrs {
					for _, b := range ctrs {
						run([]c14Ctr{a, b}, cfs, pct)
					}
				}
			}
		}
	}
	h.Extra("exhaustive", fmt.Sprintf("%d cases", idx))
	h.Close("exhaustive: every BE pod with 0-1 containers (all 4 rule settings) and every pod with 2 containers (CFS on, no ratio) over req,lim in {-1,0,1,9,10,1000,255999,256000,256001} x mem in {-1,0,1,2^30}; non-trivial = at least one container")
}
