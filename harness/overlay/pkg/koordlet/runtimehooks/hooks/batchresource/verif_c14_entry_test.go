//go:build verif

package batchresource

import (
	"context"
	"encoding/json"
	"fmt"
	"math"
	"os"
	"path/filepath"
	"strings"
	"testing"

	"github.com/containerd/nri/pkg/api"
	corev1 "k8s.io/api/core/v1"
	"k8s.io/apimachinery/pkg/api/resource"
	metav1 "k8s.io/apimachinery/pkg/apis/meta/v1"
	"k8s.io/apimachinery/pkg/types"
	"k8s.io/utils/ptr"

	apiext "github.com/koordinator-sh/koordinator/apis/extension"
	runtimeapi "github.com/koordinator-sh/koordinator/apis/runtime/v1alpha1"
	slov1alpha1 "github.com/koordinator-sh/koordinator/apis/slo/v1alpha1"
	"github.com/koordinator-sh/koordinator/pkg/koordlet/resourceexecutor"
	"github.com/koordinator-sh/koordinator/pkg/koordlet/runtimehooks/hooks"
	"github.com/koordinator-sh/koordinator/pkg/koordlet/runtimehooks/nri"
	"github.com/koordinator-sh/koordinator/pkg/koordlet/runtimehooks/protocol"
	"github.com/koordinator-sh/koordinator/pkg/koordlet/runtimehooks/reconciler"
	"github.com/koordinator-sh/koordinator/pkg/koordlet/statesinformer"
	sysutil "github.com/koordinator-sh/koordinator/pkg/koordlet/util/system"
	rmconfig "github.com/koordinator-sh/koordinator/pkg/runtimeproxy/config"
)

// C14 entry-path harness.  ONE generated pod (spec containers declaring batch amounts, QoS marking, an
// extended-resource-spec annotation of a given SHAPE) is pushed through every entry path of the protocol package
//
//	PodRequest.FromNri / FromProxy / FromReconciler        ContainerRequest.FromNri / FromProxy / FromReconciler
//
// then through the BatchResource hooks, then through the path's own "done" step (NriDone / ProxyDone / ReconcilerDone)
// with the real resource executor on a test cgroup tree (cgroup v1 or v2).  The observation is what the user finally
// sees: the contents of cpu.shares|cpu.weight, cpu.cfs_quota_us|cpu.max, memory.limit_in_bytes|memory.max of the pod
// and container cgroups, the runtime-proxy response fields and the NRI container adjustment.  After that a rule
// callback (node SLO / node meta) is run on the same pod as an "existing pod" and the files are observed again.
// The oracle judges all of it from the generated pod alone.

// annotation shapes
const (
	c14eAnnAbsent     = 0 // no such key (nil map or other keys only): webhook disabled / bypassed
	c14eAnnEmptyStr   = 1 // ""
	c14eAnnEmptyObj   = 2 // "{}"  (what the webhook writes for a pod declaring nothing)
	c14eAnnNullCtrs   = 3 // {"containers":null}
	c14eAnnEmptyCtrs  = 4 // {"containers":{}}
	c14eAnnValid      = 5 // what the webhook writes for this pod's declared containers
	c14eAnnInvalid    = 6 // not JSON / wrong JSON type
	c14eAnnJSONNull   = 7 // "null"
	c14eKubeletPeriod = 100000
)

type c14eCtr struct {
	name          string
	decl          bool  // declares at least one batch resource in requests or limits
	noStatus      bool  // no container status / id yet: the reconciler and the rule callbacks cannot know its cgroup
	req, lim, mem int64 // declared batch-cpu request / batch-cpu limit / batch-memory limit; -1 = not declared
}

func c14eWeight(shares int64) int64 {
	w := 1 + ((shares-2)*9999)/262142
	if w < 1 {
		w = 1
	}
	if w > 10000 {
		w = 10000
	}
	return w
}

// expected file content for a value the hook wants to write
func c14eFmt(v2 bool, kind int, v int64) string {
	switch {
	case kind == 0 && v2:
		return fmt.Sprintf("%d", c14eWeight(v))
	case kind != 0 && v2 && v == -1:
		return "max"
	}
	return fmt.Sprintf("%d", v)
}

// initial file content (what the kubelet / the kernel left there)
func c14eInit(v2 bool, kind int, v int64) string {
	if v2 && kind == 1 {
		if v == -1 {
			return fmt.Sprintf("max %d", c14eKubeletPeriod)
		}
		return fmt.Sprintf("%d %d", v, c14eKubeletPeriod)
	}
	if v2 && kind == 2 && v == -1 {
		return "max"
	}
	return fmt.Sprintf("%d", v)
}

func c14eRes(v2 bool, kind int) sysutil.Resource {
	switch {
	case kind == 0 && !v2:
		return sysutil.CPUShares
	case kind == 0:
		return sysutil.CPUSharesV2
	case kind == 1 && !v2:
		return sysutil.CPUCFSQuota
	case kind == 1:
		return sysutil.CPUCFSQuotaV2
	case !v2:
		return sysutil.MemoryLimit
	}
	return sysutil.MemoryLimitV2
}

func c14eWriteFile(t *testing.T, v2 bool, dir string, kind int, content string) {
	p := sysutil.GetCgroupFilePath(dir, c14eRes(v2, kind))
	if err := os.MkdirAll(filepath.Dir(p), 0o777); err != nil {
		t.Fatal(err)
	}
	if err := os.WriteFile(p, []byte(content), 0o644); err != nil {
		t.Fatal(err)
	}
}

func c14eReadFile(v2 bool, dir string, kind int) string {
	b, err := os.ReadFile(sysutil.GetCgroupFilePath(dir, c14eRes(v2, kind)))
	if err != nil {
		return "ERR"
	}
	return strings.ReplaceAll(strings.Trim(string(b), "\n"), " ", "_")
}

func c14eTok(s string) string { return strings.ReplaceAll(s, " ", "_") }

type c14eFiles [3]string

func c14eReadAll(v2 bool, dir string) c14eFiles {
	return c14eFiles{c14eReadFile(v2, dir, 0), c14eReadFile(v2, dir, 1), c14eReadFile(v2, dir, 2)}
}

func (f c14eFiles) String() string { return f[0] + " " + f[1] + " " + f[2] }

// ---- the real NRI server for the UpdateContainer step ----
// NriServer.UpdateContainer runs the hooks registered for PreUpdateContainerResources in the GLOBAL registry, so the
// batchresource hook is registered there once (as plugin.Register does) and forwards to the plugin of the current case.
var (
	c14eNriPlugin *plugin
	c14eNriSrv    nri.Server
	c14eNriExec   resourceexecutor.ResourceUpdateExecutor
	c14eNriReg    bool
)

func c14eNriServer(t *testing.T, executor resourceexecutor.ResourceUpdateExecutor) nri.Server {
	if !c14eNriReg {
		c14eNriReg = true
		hooks.Register(rmconfig.PreUpdateContainerResources, "verif-c14-"+name, description+" (container)", func(proto protocol.HooksProtocol) error {
			return c14eNriPlugin.SetContainerResources(proto)
		})
	}
	if c14eNriSrv == nil || c14eNriExec != executor {
		sock := "verif-c14-nri.sock" // NewNriServer only checks that the socket path exists; the stub is never started
		if err := os.MkdirAll(sysutil.Conf.VarRunRootDir, 0o755); err != nil {
			t.Fatal(err)
		}
		if err := os.WriteFile(filepath.Join(sysutil.Conf.VarRunRootDir, sock), nil, 0o644); err != nil {
			t.Fatal(err)
		}
		srv, err := nri.NewNriServer(nri.Options{NriSocketPath: sock, PluginFailurePolicy: rmconfig.PolicyIgnore, Executor: executor})
		if err != nil {
			t.Fatalf("NewNriServer: %v", err)
		}
		c14eNriSrv, c14eNriExec = srv, executor
	}
	return c14eNriSrv
}

func TestVerifC14Entry(t *testing.T) {
	h := vOpen("C14")
	if h == nil {
		t.Skip("VERIF_OUT not set")
	}
	helper := sysutil.NewFileTestUtil(t)
	defer helper.Cleanup()
	sysutil.SetupCgroupPathFormatter(sysutil.Systemd)
	executor := resourceexecutor.NewTestResourceExecutor()
	stopCh := make(chan struct{})
	defer close(stopCh)
	executor.Run(stopCh)

	n := h.N(1500, 20000)
	for idx := 0; idx < n; idx++ {
		c14eRunCase(t, h, helper, executor, idx, nil)
	}
	h.Close(c14eRule)
}

// c14eFixed pins the structural choices of a case (exhaustive stream); nil = everything drawn from the case's PRNG.
type c14eFixed struct {
	v2, be bool
	ann    int
	rule   int // 0 default, 1 CFS quota off (enable + cfsQuota policy), 2 ratio 1.50
	cbMeta bool
	ctrs   []c14eCtr
}

func c14eRunCase(t *testing.T, h *vHarness, helper *sysutil.FileTestUtil, executor resourceexecutor.ResourceUpdateExecutor, idx int, fx *c14eFixed) {
	{
		r := h.Begin(idx)
		if r == nil {
			return
		}
		v2 := r.Bool()
		if fx != nil {
			v2 = fx.v2
		}
		helper.SetCgroupsV2(v2)

		// ---------------- the pod ----------------
		nc := r.Range(0, 4)
		qosKind := r.Intn(8)
		labels := map[string]string{}
		annotations := map[string]string{}
		isBE := false
		switch qosKind {
		case 0:
			labels[apiext.LabelPodQoS] = string(apiext.QoSLS)
		case 1:
			annotations[apiext.LabelPodQoS] = string(apiext.QoSBE) // old annotation way: not honoured
		case 2:
		default:
			labels[apiext.LabelPodQoS] = string(apiext.QoSBE)
			isBE = true
		}
		if fx != nil {
			labels, annotations, isBE = map[string]string{apiext.LabelPodQoS: string(apiext.QoSLS)}, map[string]string{}, fx.be
			if fx.be {
				labels[apiext.LabelPodQoS] = string(apiext.QoSBE)
			}
			nc = len(fx.ctrs)
		}
		uid := fmt.Sprintf("c%d", idx)
		pod := &corev1.Pod{ObjectMeta: metav1.ObjectMeta{Namespace: "ns", Name: "p", UID: types.UID(uid), Labels: labels},
			Status: corev1.PodStatus{Phase: corev1.PodRunning}}
		ctrs := make([]c14eCtr, nc)
		webhookSpec := &apiext.ExtendedResourceSpec{} // what mutateByExtendedResources dumps for this pod
		for i := range ctrs {
			c := c14eCtr{name: fmt.Sprintf("k%d", i), req: -1, lim: -1, mem: -1}
			reqMemOnly := false
			if fx != nil {
				c.req, c.lim, c.mem, reqMemOnly = fx.ctrs[i].req, fx.ctrs[i].lim, fx.ctrs[i].mem, fx.ctrs[i].decl && fx.ctrs[i].req < 0 && fx.ctrs[i].lim < 0 && fx.ctrs[i].mem < 0
			} else if !r.Chance(1, 6) {
				c.req, c.lim, c.mem = c14Amount(r), c14Amount(r), c14Amount(r)
				if r.Chance(1, 2) { // steer to fully limited containers so that limited pods are frequent
					if c.lim <= 0 {
						c.lim = int64(r.Range(1, 30000))
					}
					if c.mem <= 0 {
						c.mem = int64(r.Range(1, 1<<30))
					}
				}
				reqMemOnly = r.Chance(1, 5)
			}
			kc := corev1.Container{Name: c.name}
			reqs, lims := corev1.ResourceList{}, corev1.ResourceList{}
			if c.req >= 0 {
				reqs[apiext.BatchCPU] = *resource.NewQuantity(c.req, resource.DecimalSI)
			}
			if reqMemOnly {
				reqs[apiext.BatchMemory] = *resource.NewQuantity(int64(r.Range(1, 1<<20)), resource.BinarySI)
			}
			if c.lim >= 0 {
				lims[apiext.BatchCPU] = *resource.NewQuantity(c.lim, resource.DecimalSI)
			}
			if c.mem >= 0 {
				lims[apiext.BatchMemory] = *resource.NewQuantity(c.mem, resource.BinarySI)
			}
			c.decl = len(reqs) > 0 || len(lims) > 0
			if c.decl {
				if webhookSpec.Containers == nil {
					webhookSpec.Containers = map[string]apiext.ExtendedResourceContainerSpec{}
				}
				webhookSpec.Containers[c.name] = apiext.ExtendedResourceContainerSpec{Requests: reqs.DeepCopy(), Limits: lims.DeepCopy()}
			}
			if fx == nil && r.Chance(1, 4) { // native resources next to the batch ones do not matter
				reqs[corev1.ResourceCPU] = *resource.NewMilliQuantity(int64(r.Range(1, 4000)), resource.DecimalSI)
			}
			if len(reqs) > 0 || r.Bool() {
				kc.Resources.Requests = reqs
			}
			if len(lims) > 0 || r.Bool() {
				kc.Resources.Limits = lims
			}
			pod.Spec.Containers = append(pod.Spec.Containers, kc)
			if fx == nil && r.Chance(1, 12) {
				c.noStatus = true
				if r.Bool() { // a status without an id (container not started) is the same situation
					pod.Status.ContainerStatuses = append(pod.Status.ContainerStatuses, corev1.ContainerStatus{Name: c.name})
				}
			} else {
				pod.Status.ContainerStatuses = append(pod.Status.ContainerStatuses, corev1.ContainerStatus{Name: c.name, ContainerID: "containerd://" + uid + c.name})
			}
			ctrs[i] = c
		}
		nDecl := 0
		for _, c := range ctrs {
			if c.decl {
				nDecl++
			}
		}
		// init containers declaring batch resources (request and limit, or a request WITHOUT a limit): the statement's sums
		// range over spec.containers only - so does the webhook's dump - and the pod-level values must not depend on them
		nInit := 0
		if fx == nil && r.Chance(1, 2) {
			nInit = r.Range(1, 2)
		}
		for i := 0; i < nInit; i++ {
			ic := corev1.Container{Name: fmt.Sprintf("i%d", i)}
			reqs, lims := corev1.ResourceList{}, corev1.ResourceList{}
			if !r.Chance(1, 6) {
				reqs[apiext.BatchCPU] = *resource.NewQuantity(int64(r.Range(0, 4000)), resource.DecimalSI)
			}
			if r.Chance(2, 3) {
				lims[apiext.BatchCPU] = *resource.NewQuantity(int64(r.Range(1, 8000)), resource.DecimalSI)
			}
			if r.Chance(2, 3) {
				m := *resource.NewQuantity(int64(r.Range(1, 1<<30)), resource.BinarySI)
				lims[apiext.BatchMemory] = m
				if r.Bool() {
					reqs[apiext.BatchMemory] = m
				}
			} else if r.Bool() {
				reqs[apiext.BatchMemory] = *resource.NewQuantity(int64(r.Range(1, 1<<20)), resource.BinarySI)
			}
			ic.Resources = corev1.ResourceRequirements{Requests: reqs, Limits: lims}
			pod.Spec.InitContainers = append(pod.Spec.InitContainers, ic)
			if r.Bool() {
				pod.Status.InitContainerStatuses = append(pod.Status.InitContainerStatuses, corev1.ContainerStatus{Name: ic.Name, ContainerID: "containerd://" + uid + ic.Name})
			}
			switch {
			case len(reqs) == 0 && len(lims) == 0:
				h.Tag("init-ctr:declares-nothing")
			case len(lims) < 2:
				h.Tag("init-ctr:batch-limit-absent")
			default:
				h.Tag("init-ctr:batch-limited")
			}
		}
		h.Tag(fmt.Sprintf("init-ctrs:%d", nInit))

		// ---------------- the annotation shape ----------------
		ann := c14eAnnValid
		if r.Chance(1, 2) {
			ann = r.Intn(8)
		}
		if fx != nil {
			ann = fx.ann
		}
		if ann == c14eAnnValid && nDecl == 0 {
			ann = c14eAnnEmptyObj // the webhook's dump of a pod declaring nothing is "{}"
		}
		switch ann {
		case c14eAnnAbsent:
			switch r.Intn(3) {
			case 0:
				if len(annotations) == 0 {
					annotations = nil
				}
			case 1:
				annotations["other"] = "x"
			}
		case c14eAnnEmptyStr:
			annotations[apiext.AnnotationExtendedResourceSpec] = ""
		case c14eAnnEmptyObj:
			annotations[apiext.AnnotationExtendedResourceSpec] = []string{"{}", " { } ", `{"other":1}`}[r.Intn(3)]
		case c14eAnnNullCtrs:
			annotations[apiext.AnnotationExtendedResourceSpec] = `{"containers":null}`
		case c14eAnnEmptyCtrs:
			annotations[apiext.AnnotationExtendedResourceSpec] = []string{`{"containers":{}}`, `{"containers": { } }`}[r.Intn(2)]
		case c14eAnnValid:
			b, _ := json.Marshal(webhookSpec)
			annotations[apiext.AnnotationExtendedResourceSpec] = string(b)
		case c14eAnnInvalid:
			annotations[apiext.AnnotationExtendedResourceSpec] = []string{"{", "[]", `{"containers":[]}`, "nope", `{"containers":{"k0":7}}`, `"x"`}[r.Intn(6)]
		case c14eAnnJSONNull:
			annotations[apiext.AnnotationExtendedResourceSpec] = "null"
		}
		pod.Annotations = annotations

		// ---------------- rule in force: 0-2 callbacks with the glue shapes of NodeSLO / node annotation ----------------
		p := newPlugin()
		p.executor = executor
		lastRatio, lastCFS := int64(-100), true
		nEv := r.Range(0, 2)
		if fx != nil {
			nEv = 0
			switch fx.rule {
			case 1:
				upd, _ := p.parseRuleForNodeSLO(&slov1alpha1.NodeSLOSpec{ResourceUsedThresholdWithBE: &slov1alpha1.ResourceThresholdStrategy{
					Enable: ptr.To(true), CPUSuppressPolicy: slov1alpha1.CPUCfsQuotaPolicy}})
				h.Op("rule slo 0")
				h.Obs("upd %d", vB(upd))
				lastCFS = false
			case 2:
				upd, _ := p.parseRuleForNodeMeta(&corev1.Node{ObjectMeta: metav1.ObjectMeta{Name: "n", Annotations: map[string]string{apiext.AnnotationCPUNormalizationRatio: "1.50"}}})
				h.Op("rule node 150")
				h.Obs("upd %d", vB(upd))
				lastRatio = 150
			}
		}
		for e := 0; e < nEv; e++ {
			if r.Bool() {
				// NodeSLO shapes: nil spec, no BE strategy, policy unset (=> default strategy), enable x policy
				var spec *slov1alpha1.NodeSLOSpec
				want := true
				shape := r.Intn(8)
				opK, opE, opP := 0, 0, 0 // the SHAPE goes to the model, which derives the switch itself (Model/C14Entry sloEnablesCFS)
				switch shape {
				case 0: // typed nil
				case 1:
					spec = &slov1alpha1.NodeSLOSpec{}
					opK = 1
				case 2: // policy unset: the DEFAULT strategy (disabled, cpuset) applies whatever `enable` says
					en := r.Bool()
					spec = &slov1alpha1.NodeSLOSpec{ResourceUsedThresholdWithBE: &slov1alpha1.ResourceThresholdStrategy{Enable: ptr.To(en)}}
					opK, opE = 2, vB(en)
				default:
					enable, cfsPolicy := r.Bool(), r.Chance(2, 3)
					st := &slov1alpha1.ResourceThresholdStrategy{Enable: ptr.To(enable), CPUSuppressPolicy: slov1alpha1.CPUSetPolicy}
					opK, opE, opP = 2, vB(enable), 1
					if cfsPolicy {
						st.CPUSuppressPolicy = slov1alpha1.CPUCfsQuotaPolicy
						opP = 2
					}
					spec = &slov1alpha1.NodeSLOSpec{ResourceUsedThresholdWithBE: st}
					// the quota of BE pods may only be given up while BE suppress is ENABLED and uses the cfsQuota policy
					want = !(enable && cfsPolicy)
					h.Tag(fmt.Sprintf("slo:enable=%v,cfsQuota=%v", enable, cfsPolicy))
				}
				if shape < 3 {
					h.Tag(fmt.Sprintf("slo:shape%d", shape))
				}
				var upd bool
				var err error
				h.Op("rule sloshape %d %d %d", opK, opE, opP)
				if h.Guard(func() { upd, err = p.parseRuleForNodeSLO(spec) }) {
					h.Obs("panic")
				} else if err != nil {
					h.Obs("err")
				} else {
					h.Obs("upd %d", vB(upd))
				}
				lastCFS = want
			} else {
				// node annotation shapes: absent (=> -1 sentinel), 1.0, below 1, above 1 in several spellings, malformed
				node := &corev1.Node{ObjectMeta: metav1.ObjectMeta{Name: "n"}}
				shape := r.Intn(8)
				switch shape {
				case 0:
					if r.Bool() {
						node.Annotations = map[string]string{"other": "x"}
					}
					h.Op("rule ratioann 0 0")
					lastRatio = -100
				case 1:
					bad := []string{"abc", "", "0", "-1.5", "1,5", " 1.5", "0.0", "1.5x", "-0"}[r.Intn(9)]
					node.Annotations = map[string]string{apiext.AnnotationCPUNormalizationRatio: bad}
					h.Op("rule ratioann 1 0")
				default:
					pct := int64(r.Range(50, 300))
					if shape == 2 {
						pct = 100
					}
					if shape == 3 {
						pct = int64(r.Range(101, 120))
					}
					var s string
					switch r.Intn(4) {
					case 0:
						s = fmt.Sprintf("%d.%02d", pct/100, pct%100)
					case 1:
						s = fmt.Sprintf("%de-2", pct)
					case 2:
						s = fmt.Sprintf("+%d.%02d0", pct/100, pct%100)
					default:
						s = strings.TrimRight(strings.TrimRight(fmt.Sprintf("%d.%02d", pct/100, pct%100), "0"), ".")
					}
					node.Annotations = map[string]string{apiext.AnnotationCPUNormalizationRatio: s}
					h.Op("rule ratioann 2 %d", pct)
					lastRatio = pct
				}
				h.Tag(fmt.Sprintf("ratio:shape%d", shape))
				upd, err := p.parseRuleForNodeMeta(node)
				switch {
				case shape == 1 && err == nil:
					h.Obs("noerr %d", vB(upd))
					h.Fail("C14:malformed-ratio-accepted", "malformed ratio annotation %q accepted", node.Annotations[apiext.AnnotationCPUNormalizationRatio])
				case err != nil && shape != 1:
					h.Obs("err")
				case err != nil:
					h.Obs("upd 0")
				default:
					h.Obs("upd %d", vB(upd))
				}
			}
		}
		cfs, effRatio := p.rule.GetCFSQuotaScaleRatio()
		pct := int64(math.Round(effRatio * 100))
		if cfs != lastCFS {
			h.Fail("C14:stale-cfs-switch", "cfs enabled=%v but the last node SLO says %v", cfs, lastCFS)
		}
		if cfs {
			if lastRatio < 0 && pct > 0 {
				h.Fail("C14:stale-ratio", "ratio %d/100 in force although the node configures none", pct)
			} else if lastRatio > 0 && (pct < lastRatio-1 || pct > lastRatio+1) {
				h.Fail("C14:stale-ratio", "ratio %d/100 in force but the node configures %d/100", pct, lastRatio)
			}
		}
		scaled := cfs && pct > 100
		fscale := func(q int64) int64 { return int64(math.Ceil(float64(q) / effRatio)) }

		// ---------------- initial cgroup contents ----------------
		init := [3]int64{int64(r.Range(2, 3000)), -1, int64(r.Range(1, 1<<20)) * 4096}
		if v2 {
			init[0] = int64(r.Range(1, 200))
			if r.Chance(1, 3) {
				init[2] = -1
			}
		}
		if r.Bool() {
			init[1] = int64(r.Range(1, 40)) * 10000
		}
		cbMeta := r.Bool() // which rule callback is run at the end
		if fx != nil {
			cbMeta = fx.cbMeta
		}
		initStr := func(kind int, forCb bool) string {
			v := init[kind]
			if kind == 1 && forCb && v2 {
				// LeveledUpdateBatch's merge pass writes the raw "-1" into cpu.max when the new quota is larger; a real
				// kernel rejects that write and the second pass writes "max", the test tree does not.  Start unlimited.
				v = -1
			}
			return c14eInit(v2, kind, v)
		}
		podDir := func(path string) string {
			return fmt.Sprintf("kubepods.slice/kubepods-besteffort.slice/kubepods-besteffort-pod%s%s.slice", uid, path)
		}
		ctrDir := func(path string, c c14eCtr) string {
			return filepath.Join(podDir(path), "cri-containerd-"+uid+c.name+".scope")
		}
		for _, path := range []string{"n", "x", "r", "b"} {
			for kind := 0; kind < 3; kind++ {
				c14eWriteFile(t, v2, podDir(path), kind, initStr(kind, path == "b"))
				if path == "r" || path == "b" {
					for _, c := range ctrs {
						c14eWriteFile(t, v2, ctrDir(path, c), kind, initStr(kind, path == "b"))
					}
				}
			}
		}
		initFiles := c14eFiles{c14eTok(initStr(0, false)), c14eTok(initStr(1, false)), c14eTok(initStr(2, false))}
		initFilesCb := c14eFiles{c14eTok(initStr(0, true)), c14eTok(initStr(1, true)), c14eTok(initStr(2, true))}

		flat := make([]int64, 0, 4*nc)
		for _, c := range ctrs {
			flat = append(flat, int64(vB(c.decl)+2*vB(c.noStatus)), c.req, c.lim, c.mem)
		}
		h.Op("entry %d %d %d %d %d %d %d %s", vB(isBE), ann, vB(v2), init[0], init[1], init[2], nc, vInts(flat))
		h.Obs("eff %d %d", vB(cfs), pct)
		h.Tag(fmt.Sprintf("ann:%d", ann))
		h.Tag(fmt.Sprintf("v2:%v", v2))
		h.Tag(fmt.Sprintf("decl:%d/%d", nDecl, nc))
		for _, c := range ctrs {
			if c.noStatus {
				h.Tag("ctr-without-status")
			}
		}
		if isBE && nDecl > 0 {
			h.Nontrivial()
		}

		// ---------------- the oracle's expectation, from the generated pod alone ----------------
		var sumReq, sumLim, sumMem int64
		unlimCPU, unlimMem := false, false
		for _, c := range ctrs {
			if !c.decl {
				continue
			}
			if c.req > 0 {
				sumReq += c.req
			}
			if c.lim <= 0 {
				unlimCPU = true
			} else {
				sumLim += c.lim
			}
			if c.mem <= 0 {
				unlimMem = true
			} else {
				sumMem += c.mem
			}
		}
		quotaOf := func(limited bool, milli int64) int64 {
			if !cfs || !limited {
				return -1
			}
			q := c14StdQuota(milli)
			if scaled && q > 0 {
				s := fscale(q)
				if !(s > 0 && s <= q) {
					h.Fail("C14:float-assumption", "scale(%d)=%d violates 0<f(q)<=q", q, s)
				}
				q = s
			}
			return q
		}
		podWant := [3]int64{c14StdShares(sumReq), quotaOf(!unlimCPU, sumLim), sumMem}
		if unlimMem {
			podWant[2] = -1
		}
		ctrWant := func(c c14eCtr) [3]int64 {
			w := [3]int64{c14StdShares(c.req), quotaOf(c.lim > 0, c.lim), c.mem}
			if w[2] <= 0 {
				w[2] = -1
			}
			return w
		}
		fmtAll := func(w [3]int64) c14eFiles {
			return c14eFiles{c14eFmt(v2, 0, w[0]), c14eFmt(v2, 1, w[1]), c14eFmt(v2, 2, w[2])}
		}
		// does the path KNOW the declared amounts?  NRI / proxy see labels + annotations only; the reconciler sees the pod spec
		annKnows := ann == c14eAnnValid
		// judge one pod-level result
		judgePod := func(path string, knows bool, got c14eFiles, initF c14eFiles, only int) {
			want := fmtAll(podWant)
			for kind := 0; kind < 3; kind++ {
				if only >= 0 && kind != only {
					if got[kind] != initF[kind] {
						h.Fail("C14:entry-"+path+"-touches-other-file", "file %d: %s (was %s) although this step only concerns the cfs quota", kind, got[kind], initF[kind])
					}
					continue
				}
				switch {
				case !isBE:
					if got[kind] != initF[kind] {
						h.Fail("C14:non-be-touched", "%s path: pod is not BE but pod cgroup file %d changed %s -> %s", path, kind, initF[kind], got[kind])
					}
				case knows && nDecl > 0:
					if got[kind] != want[kind] {
						h.Fail("C14:entry-"+path+"-pod-value", "pod cgroup file %d is %s, declared amounts give %s (init %s)", kind, got[kind], want[kind], initF[kind])
					}
				case ann == c14eAnnEmptyCtrs && got[kind] != initF[kind]:
					// {"containers":{}}: the unchanged code sums over zero containers and writes 2 / -1 / 0 (see report); tagged, not failed
					h.Tag("finding-candidate:empty-containers-annotation-written:" + path)
				default:
					if got[kind] != initF[kind] {
						h.Fail("C14:entry-"+path+"-undeclared-written", "nothing declared is known on the %s path (annotation shape %d, %d declaring containers) but pod cgroup file %d changed %s -> %s",
							path, ann, nDecl, kind, initF[kind], got[kind])
					}
				}
			}
		}

		// ================= pod level =================
		sandbox := func(path string) *api.PodSandbox {
			return &api.PodSandbox{Id: "sb" + uid, Name: pod.Name, Namespace: pod.Namespace, Uid: uid, Labels: labels, Annotations: annotations,
				Linux: &api.LinuxPodSandbox{CgroupParent: podDir(path)}}
		}
		dec := func(s *apiext.ExtendedResourceSpec) int {
			if s == nil {
				return -1
			}
			return len(s.Containers)
		}
		// --- NRI: RunPodSandbox ---
		{
			ctx := &protocol.PodContext{}
			if h.Guard(func() {
				ctx.FromNri(sandbox("n"))
				_ = p.SetPodResources(ctx)
				ctx.NriDone(executor)
			}) {
				h.Obs("pod nri panic")
			} else {
				got := c14eReadAll(v2, podDir("n"))
				h.Obs("pod nri %d | %s", dec(ctx.Request.ExtendedResources), got)
				judgePod("nri", annKnows, got, initFiles, -1)
			}
		}
		// --- runtime proxy: PreRunPodSandbox ---
		var proxyGot c14eFiles
		{
			ctx := &protocol.PodContext{}
			resp := &runtimeapi.PodSandboxHookResponse{}
			if h.Guard(func() {
				ctx.FromProxy(&runtimeapi.PodSandboxHookRequest{PodMeta: &runtimeapi.PodSandboxMetadata{Name: pod.Name, Namespace: pod.Namespace, Uid: uid},
					Labels: labels, Annotations: annotations, CgroupParent: podDir("x")})
				_ = p.SetPodResources(ctx)
				ctx.ProxyDone(resp, executor)
			}) {
				h.Obs("pod proxy panic")
			} else {
				got := c14eReadAll(v2, podDir("x"))
				proxyGot = got
				rs := "none"
				if resp.Resources != nil {
					rs = fmt.Sprintf("%d %d %d", resp.Resources.CpuShares, resp.Resources.CpuQuota, resp.Resources.MemoryLimitInBytes)
				}
				h.Obs("pod proxy %d | %s | %s", dec(ctx.Request.ExtendedResources), rs, got)
				judgePod("proxy", annKnows, got, initFiles, -1)
				switch {
				case !isBE || !(annKnows && nDecl > 0):
					if resp.Resources != nil && ann != c14eAnnEmptyCtrs {
						h.Fail("C14:entry-proxy-undeclared-written", "proxy response carries resources %s although nothing declared is known", rs)
					}
				case resp.Resources == nil:
					h.Fail("C14:be-not-set", "proxy response carries no resources for a BE pod with declared amounts")
				case resp.Resources.CpuShares != podWant[0] || resp.Resources.CpuQuota != podWant[1] || resp.Resources.MemoryLimitInBytes != podWant[2]:
					h.Fail("C14:entry-proxy-pod-value", "proxy response %s, declared amounts give %v", rs, podWant)
				}
			}
		}
		// --- reconciler: one context per registered pod-level cgroup file, as reconcilePodCgroup does ---
		podMeta := func(path string) *statesinformer.PodMeta {
			return &statesinformer.PodMeta{Pod: pod, CgroupDir: podDir(path)}
		}
		recRegistered := reconciler.PodQOSFilter().Filter(podMeta("r")) == podQOSConditions[0]
		{
			decRec := -2
			if h.Guard(func() {
				for _, fn := range []func(protocol.HooksProtocol) error{p.SetPodCPUShares, p.SetPodCFSQuota, p.SetPodMemoryLimit} {
					if !recRegistered {
						continue
					}
					ctx := protocol.HooksProtocolBuilder.Pod(podMeta("r"))
					decRec = dec(ctx.(*protocol.PodContext).Request.ExtendedResources)
					if err := fn(ctx); err == nil {
						ctx.ReconcilerDone(executor)
					}
				}
			}) {
				h.Obs("pod rec panic")
			} else {
				got := c14eReadAll(v2, podDir("r"))
				h.Obs("pod rec %d | %s", decRec, got)
				judgePod("rec", true, got, initFiles, -1)
				if isBE && annKnows && nDecl > 0 && got != proxyGot {
					h.Fail("C14:entry-paths-differ", "pod cgroup after the proxy path %s, after the reconciler path %s", proxyGot, got)
				}
			}
		}

		// ================= container level =================
		for i, c := range ctrs {
			want := ctrWant(c)
			judgeResp := func(path string, set bool, v [3]int64, shown string) {
				switch {
				case !isBE || !(annKnows && c.decl):
					if set {
						h.Fail("C14:entry-"+path+"-undeclared-written", "container %s: %s path injects %s although nothing declared is known for it (annotation shape %d, declares=%v, BE=%v)", c.name, path, shown, ann, c.decl, isBE)
					}
				case !set:
					h.Fail("C14:be-not-set", "container %s: %s path injects nothing for a BE container with declared amounts", c.name, path)
				case v != want:
					h.Fail("C14:entry-"+path+"-container-value", "container %s: %s path injects %v, declared amounts give %v", c.name, path, v, want)
				}
			}
			// --- NRI: CreateContainer ---
			{
				ctx := &protocol.ContainerContext{}
				var adjust *api.ContainerAdjustment
				var update *api.ContainerUpdate
				if h.Guard(func() {
					ctx.FromNri(sandbox("n"), &api.Container{Id: uid + c.name, Name: c.name, PodSandboxId: "sb" + uid})
					_ = p.SetContainerResources(ctx)
					adjust, update, _ = ctx.NriDone(executor)
				}) {
					h.Obs("ctr %d nri panic", i)
				} else {
					res := adjust.GetLinux().GetResources()
					// UpdateContainer answers with a ContainerUpdate: it must carry the same resources as the CreateContainer adjustment
					if a, u := res.String(), update.GetLinux().GetResources().String(); a != u {
						h.Fail("C14:nri-update-differs", "container %s: adjustment resources {%s} but update resources {%s}", c.name, a, u)
					}
					if res == nil {
						h.Obs("ctr %d nri none", i)
						judgeResp("nri", false, [3]int64{}, "none")
					} else {
						v := [3]int64{-9, -9, -9}
						if s := res.GetCpu().GetShares(); s != nil {
							v[0] = int64(s.GetValue())
						}
						if q := res.GetCpu().GetQuota(); q != nil {
							v[1] = q.GetValue()
						}
						if m := res.GetMemory().GetLimit(); m != nil {
							v[2] = m.GetValue()
						}
						h.Obs("ctr %d nri %d %d %d", i, v[0], v[1], v[2])
						judgeResp("nri", true, v, fmt.Sprint(v))
					}
				}
			}
			// --- NRI: UpdateContainer through the real NriServer (PreUpdateContainerResources stage of the global hook registry) ---
			// The container already RUNS with some resources (container.Linux.Resources: absent / kubelet defaults / exactly the
			// batch conversion / one field of it / random); the kubelet asks for its native values.  What the runtime applies is
			// the plugin's ContainerUpdate merged field by field over the kubelet's request (absent field => kubelet's value).
			// Private PRNG: the case's main stream is not advanced; no Op / Obs lines (oracle-only step, the model's create-path
			// clause is the demand).
			{
				ur := vNewRand(h.Seed^0xC14E9, uint64(idx)*16+uint64(i))
				srv := c14eNriServer(t, executor)
				c14eNriPlugin = p
				kube := [3]int64{2, -1, 0} // BE batch container as the kubelet sees it: min shares, no quota, no memory limit
				if ur.Chance(1, 4) {
					kube = [3]int64{int64(ur.Range(2, 4096)), []int64{-1, 0, int64(ur.Range(1000, 400000))}[ur.Intn(3)], []int64{0, int64(ur.Range(1, 1<<30))}[ur.Intn(2)]}
				}
				curKind := ur.Intn(6)
				var cur *api.LinuxResources
				mk := func(v [3]int64) *api.LinuxResources {
					return &api.LinuxResources{
						Cpu:    &api.LinuxCPU{Shares: api.UInt64(uint64(v[0])), Quota: api.Int64(v[1]), Period: api.UInt64(100000)},
						Memory: &api.LinuxMemory{Limit: api.Int64(v[2])}}
				}
				switch curKind {
				case 0: // no linux section at all
				case 1: // empty resources
					cur = &api.LinuxResources{}
				case 2: // kubelet defaults
					cur = mk(kube)
				case 3: // exactly the conversion of the declared amounts (a batch container that is already right)
					cur = mk(want)
				case 4: // right in one or two fields only
					v := [3]int64{int64(ur.Range(2, 4096)), int64(ur.Range(1000, 400000)), int64(ur.Range(1, 1<<30))}
					keep := ur.Range(1, 6)
					for k := 0; k < 3; k++ {
						if keep&(1<<k) != 0 {
							v[k] = want[k]
						}
					}
					cur = mk(v)
				default: // random
					cur = mk([3]int64{int64(ur.Range(2, 4096)), []int64{-1, int64(ur.Range(1000, 400000))}[ur.Intn(2)], []int64{-1, int64(ur.Range(1, 1<<30))}[ur.Intn(2)]})
				}
				ctr := &api.Container{Id: uid + c.name, Name: c.name, PodSandboxId: "sb" + uid}
				if curKind != 0 {
					ctr.Linux = &api.LinuxContainer{Resources: cur}
				}
				var ups []*api.ContainerUpdate
				var uerr error
				if h.Guard(func() {
					ups, uerr = srv.UpdateContainer(context.TODO(), sandbox("n"), ctr, mk(kube))
				}) {
					h.Fail("C14:nri-update-panic", "container %s: NriServer.UpdateContainer panics (current resources kind %d)", c.name, curKind)
				} else if uerr != nil || len(ups) != 1 || ups[0] == nil {
					h.Fail("C14:nri-update-answer", "container %s: NriServer.UpdateContainer answers %d updates, err %v", c.name, len(ups), uerr)
				} else {
					res := ups[0].GetLinux().GetResources()
					applied, carried := kube, 0
					if s := res.GetCpu().GetShares(); s != nil {
						applied[0], carried = int64(s.GetValue()), carried|1
					}
					if q := res.GetCpu().GetQuota(); q != nil {
						applied[1], carried = q.GetValue(), carried|2
					}
					if m := res.GetMemory().GetLimit(); m != nil {
						applied[2], carried = m.GetValue(), carried|4
					}
					norm := func(v [3]int64) [3]int64 { // quota 0 / memory <= 0 mean "no limit" to the runtime
						if v[1] == 0 {
							v[1] = -1
						}
						if v[2] <= 0 {
							v[2] = -1
						}
						return v
					}
					h.Tag(fmt.Sprintf("nri-update cur=%d carried=%d", curKind, carried))
					switch {
					case !isBE || !(annKnows && c.decl):
						if carried != 0 {
							h.Fail("C14:entry-nri-update-undeclared-written", "container %s: UpdateContainer answers {%s} although nothing declared is known for it (annotation shape %d, declares=%v, BE=%v)", c.name, res.String(), ann, c.decl, isBE)
						}
					case norm(applied) != norm(want):
						h.Fail("C14:entry-nri-update-applied", "container %s (batch-cpu req %d lim %d, batch-memory lim %d): runs with {%s} (kind %d), kubelet asks shares/quota/memory %v, NriServer.UpdateContainer answers {%s} (fields carried mask %d) => the runtime applies %v, the declared amounts give %v",
							c.name, c.req, c.lim, c.mem, cur.String(), curKind, kube, res.String(), carried, norm(applied), norm(want))
					}
				}
			}
			// --- runtime proxy: PreCreateContainer ---
			{
				ctx := &protocol.ContainerContext{}
				resp := &runtimeapi.ContainerResourceHookResponse{}
				if h.Guard(func() {
					ctx.FromProxy(&runtimeapi.ContainerResourceHookRequest{PodMeta: &runtimeapi.PodSandboxMetadata{Name: pod.Name, Namespace: pod.Namespace, Uid: uid},
						ContainerMeta: &runtimeapi.ContainerMetadata{Name: c.name, Id: uid + c.name}, PodLabels: labels, PodAnnotations: annotations, PodCgroupParent: podDir("x")})
					_ = p.SetContainerResources(ctx)
					ctx.ProxyDone(resp, executor)
				}) {
					h.Obs("ctr %d proxy panic", i)
				} else if resp.ContainerResources == nil {
					h.Obs("ctr %d proxy none", i)
					judgeResp("proxy", false, [3]int64{}, "none")
				} else {
					v := [3]int64{resp.ContainerResources.CpuShares, resp.ContainerResources.CpuQuota, resp.ContainerResources.MemoryLimitInBytes}
					h.Obs("ctr %d proxy %d %d %d", i, v[0], v[1], v[2])
					judgeResp("proxy", true, v, fmt.Sprint(v))
				}
			}
			// --- reconciler: one context per registered container-level cgroup file ---
			{
				if h.Guard(func() {
					for _, fn := range []func(protocol.HooksProtocol) error{p.SetContainerCPUShares, p.SetContainerCFSQuota, p.SetContainerMemoryLimit} {
						if !recRegistered {
							continue
						}
						ctx := protocol.HooksProtocolBuilder.Container(podMeta("r"), c.name)
						if err := fn(ctx); err == nil {
							ctx.ReconcilerDone(executor)
						}
					}
				}) {
					h.Obs("ctr %d rec panic", i)
				} else {
					got := c14eReadAll(v2, ctrDir("r", c))
					h.Obs("ctr %d rec %s", i, got)
					wantF := fmtAll(want)
					// the reconciler prefers the container spec; without a declaration there it falls back to the annotation, which
					// (being the webhook's dump or one of the empty shapes) knows nothing about this container either
					for kind := 0; kind < 3; kind++ {
						switch {
						case !isBE || !c.decl || c.noStatus:
							if got[kind] != initFiles[kind] {
								h.Fail("C14:entry-rec-undeclared-written", "container %s (BE=%v, declares=%v, no status=%v): cgroup file %d changed %s -> %s", c.name, isBE, c.decl, c.noStatus, kind, initFiles[kind], got[kind])
							}
						case got[kind] != wantF[kind]:
							h.Fail("C14:entry-rec-container-value", "container %s: cgroup file %d is %s, declared amounts give %s", c.name, kind, got[kind], wantF[kind])
						}
					}
				}
			}
		}

		// --- reconciler, pod cgroup created LATE: the first pass finds no cgroup dir (the executor ignores that error), the
		// kubelet then creates the files with its own contents, the next pass submits the SAME values again (well within
		// resource-force-update-seconds): the files the user looks at must hold the conversion all the same ---
		if fx == nil {
			late := init
			if r.Bool() { // the kubelet's defaults for a pod that requests nothing native: shares 2, no quota, no memory limit
				late = [3]int64{2, -1, 9223372036854771712}
				if v2 {
					late = [3]int64{1, -1, -1}
				}
			}
			lateFiles := c14eFiles{c14eTok(c14eInit(v2, 0, late[0])), c14eTok(c14eInit(v2, 1, late[1])), c14eTok(c14eInit(v2, 2, late[2]))}
			pass := func() {
				for _, fn := range []func(protocol.HooksProtocol) error{p.SetPodCPUShares, p.SetPodCFSQuota, p.SetPodMemoryLimit} {
					if !recRegistered {
						continue
					}
					ctx := protocol.HooksProtocolBuilder.Pod(podMeta("m"))
					if err := fn(ctx); err == nil {
						ctx.ReconcilerDone(executor)
					}
				}
			}
			h.Op("late %d %d %d", late[0], late[1], late[2])
			if h.Guard(func() {
				pass() // cgroup dir missing
				for kind := 0; kind < 3; kind++ {
					c14eWriteFile(t, v2, podDir("m"), kind, c14eInit(v2, kind, late[kind]))
				}
				pass()
			}) {
				h.Obs("late pod panic")
			} else {
				got := c14eReadAll(v2, podDir("m"))
				h.Obs("late pod %s", got)
				judgePod("rec-late", true, got, lateFiles, -1)
			}
		}

		// ================= rule callbacks on the pod as an EXISTING pod: a history; only the cfs quota files move =================
		// step 0 is the initial sync (either callback kind); every later step is a rule event followed, as the rule framework
		// does, by that rule's callback iff the parse function reported an update.  After every callback the files must hold
		// the conversion under the rule THEN in force.
		nCb := 1
		if fx == nil {
			nCb = r.Range(1, 3)
		}
		for step := 0; step < nCb; step++ {
			if step > 0 {
				var upd bool
				var err error
				if r.Bool() {
					enable, cfsPolicy := r.Bool(), r.Chance(2, 3)
					st := &slov1alpha1.ResourceThresholdStrategy{Enable: ptr.To(enable), CPUSuppressPolicy: slov1alpha1.CPUSetPolicy}
					if cfsPolicy {
						st.CPUSuppressPolicy = slov1alpha1.CPUCfsQuotaPolicy
					}
					want := !(enable && cfsPolicy)
					h.Op("rule sloshape 2 %d %d", vB(enable), 1+vB(cfsPolicy))
					upd, err = p.parseRuleForNodeSLO(&slov1alpha1.NodeSLOSpec{ResourceUsedThresholdWithBE: st})
					lastCFS, cbMeta = want, false
				} else {
					node := &corev1.Node{ObjectMeta: metav1.ObjectMeta{Name: "n"}}
					pctNew := int64(-100)
					if !r.Chance(1, 4) {
						pctNew = int64(r.Range(50, 300))
						if lastRatio > 0 && r.Chance(1, 4) {
							pctNew = lastRatio + int64(r.Range(-2, 2))
							if pctNew <= 0 {
								pctNew = 1
							}
						}
						node.Annotations = map[string]string{apiext.AnnotationCPUNormalizationRatio: fmt.Sprintf("%d.%02d", pctNew/100, pctNew%100)}
					}
					h.Op("rule node %d", pctNew)
					upd, err = p.parseRuleForNodeMeta(node)
					lastRatio, cbMeta = pctNew, true
				}
				if err != nil {
					h.Obs("err")
				} else {
					h.Obs("upd %d", vB(upd))
				}
				cfs, effRatio = p.rule.GetCFSQuotaScaleRatio()
				pct = int64(math.Round(effRatio * 100))
				scaled = cfs && pct > 100
				if cfs != lastCFS {
					h.Fail("C14:stale-cfs-switch", "cfs enabled=%v but the last node SLO says %v", cfs, lastCFS)
				}
				if cfs && ((lastRatio < 0 && pct > 0) || (lastRatio > 0 && (pct < lastRatio-1 || pct > lastRatio+1))) {
					h.Fail("C14:stale-ratio", "ratio %d/100 in force but the node configures %d/100", pct, lastRatio)
				}
				podWant[1] = quotaOf(!unlimCPU, sumLim)
				h.Tag(fmt.Sprintf("cbhist:upd=%v", upd))
				if !upd {
					continue // the framework does not call back; the rule is unchanged, so are the files
				}
			}
			target := &statesinformer.CallbackTarget{Pods: []*statesinformer.PodMeta{podMeta("b")}}
			name := "slo"
			if cbMeta {
				name = "meta"
			}
			h.Op("cb %d", vB(cbMeta))
			if h.Guard(func() {
				if cbMeta {
					_ = p.ruleUpdateCbForNodeMeta(target)
				} else {
					_ = p.ruleUpdateCbForNodeSLO(target)
				}
			}) {
				h.Obs("cb panic")
			} else {
				got := c14eReadAll(v2, podDir("b"))
				h.Obs("cb pod %s", got)
				judgePod("cb-"+name, true, got, initFilesCb, 1)
				for i, c := range ctrs {
					got := c14eReadAll(v2, ctrDir("b", c))
					h.Obs("cb ctr %d %s", i, got)
					wantQ := c14eFmt(v2, 1, ctrWant(c)[1])
					for kind := 0; kind < 3; kind++ {
						switch {
						case kind != 1 || !isBE || !c.decl || c.noStatus:
							if got[kind] != initFilesCb[kind] {
								h.Fail("C14:cb-untouched-file-written", "callback %s: container %s (BE=%v, declares=%v) cgroup file %d changed %s -> %s", name, c.name, isBE, c.decl, kind, initFilesCb[kind], got[kind])
							}
						case got[kind] != wantQ:
							h.Fail("C14:cb-container-quota", "callback %s (step %d): container %s cfs quota file is %s, declared limit under the rule in force gives %s", name, step, c.name, got[kind], wantQ)
						}
					}
				}
			}
		}

		// the case's cgroup dirs are not needed any more
		for _, sub := range []string{"", "cpu", "memory"} {
			_ = os.RemoveAll(filepath.Join(helper.TempDir, sub, "kubepods.slice"))
		}
		h.End()
	}
}

const c14eRule = "one generated pod (0-4 spec containers declaring batch cpu request/limit, batch memory limit, or nothing; QoS by label/annotation/none) with an extended-resource-spec annotation of shape " +
	"absent / \"\" / {} / {containers:null} / {containers:{}} / the webhook's dump / invalid JSON / null, cgroup v1 or v2, 0-2 rule callbacks (NodeSLO shapes nil / no strategy / policy unset / enable x policy; " +
	"ratio annotation absent / malformed / 1.0 / >1 / <1 in several spellings); pushed through Pod+Container x FromNri/FromProxy/FromReconciler -> hooks -> NriDone/ProxyDone/ReconcilerDone, every container also through the real NriServer.UpdateContainer with current resources in {absent, empty, kubelet's, exactly the conversion, partly right, random} (applied = update merged over the kubelet's request), and a history of 1-3 rule callbacks on the pod as an existing pod (each later one after a rule event that reported an update); " +
	"the pod also carries 0-2 init containers declaring batch cpu / memory (limit sometimes absent; never part of the sums nor of the webhook's dump); " +
	"one more reconciler pass pair on a pod cgroup that is missing at the first pass and created (kubelet defaults or random contents) before the second; " +
	"observed: cgroup file contents, proxy responses, NRI adjustments; non-trivial = BE pod with >= 1 declaring container; distinct by op lines"

// ---- exhaustive small scope (thorough tier): every annotation shape x BE/non-BE x cgroup v1/v2 x rule (default / CFS quota off /
// ratio 1.50) x rule callback kind x every pod with 0-2 containers drawn from six container kinds ----

func TestVerifC14EntryExhaustive(t *testing.T) {
	h := vOpen("C14")
	if h == nil {
		t.Skip("VERIF_OUT not set")
	}
	helper := sysutil.NewFileTestUtil(t)
	defer helper.Cleanup()
	sysutil.SetupCgroupPathFormatter(sysutil.Systemd)
	executor := resourceexecutor.NewTestResourceExecutor()
	stopCh := make(chan struct{})
	defer close(stopCh)
	executor.Run(stopCh)
	kinds := []c14eCtr{
		{decl: false, req: -1, lim: -1, mem: -1},         // declares nothing
		{decl: true, req: -1, lim: -1, mem: -1},          // declares only a batch-memory request
		{decl: true, req: 1000, lim: 2000, mem: 1 << 30}, // fully limited
		{decl: true, req: 0, lim: 0, mem: 0},             // explicit zeros
		{decl: true, req: 500, lim: -1, mem: -1},         // request only
		{decl: true, req: -1, lim: 300, mem: 1 << 20},    // limits only
	}
	pods := [][]c14eCtr{{}}
	for _, a := range kinds {
		pods = append(pods, []c14eCtr{a})
		for _, b := range kinds {
			pods = append(pods, []c14eCtr{a, b})
		}
	}
	idx := 0
	for _, be := range []bool{true, false} {
		for ann := 0; ann < 8; ann++ {
			for _, v2 := range []bool{false, true} {
				for rule := 0; rule < 3; rule++ {
					for _, cbMeta := range []bool{false, true} {
						for _, pod := range pods {
							c14eRunCase(t, h, helper, executor, idx, &c14eFixed{v2: v2, be: be, ann: ann, rule: rule, cbMeta: cbMeta, ctrs: pod})
							idx++
						}
					}
				}
			}
		}
	}
	h.Extra("exhaustive", fmt.Sprintf("%d cases", idx))
	h.Close("exhaustive: BE/non-BE x 8 annotation shapes x cgroup v1/v2 x rule (default, CFS quota off, ratio 1.50) x callback kind x every pod with 0-2 containers of six kinds " +
		"(declares nothing, only a batch-memory request, fully limited, explicit zeros, request only, limits only); non-trivial = BE pod with >= 1 declaring container")
}
