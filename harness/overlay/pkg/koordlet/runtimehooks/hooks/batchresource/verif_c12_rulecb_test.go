//go:build verif

package batchresource

import (
	"fmt"
	"math"
	"os"
	"path/filepath"
	"strconv"
	"strings"
	"testing"
	"time"

	corev1 "k8s.io/api/core/v1"
	"k8s.io/apimachinery/pkg/api/resource"
	metav1 "k8s.io/apimachinery/pkg/apis/meta/v1"
	"k8s.io/apimachinery/pkg/types"
	"k8s.io/utils/ptr"

	apiext "github.com/koordinator-sh/koordinator/apis/extension"
	slov1alpha1 "github.com/koordinator-sh/koordinator/apis/slo/v1alpha1"
	"github.com/koordinator-sh/koordinator/pkg/koordlet/resourceexecutor"
	"github.com/koordinator-sh/koordinator/pkg/koordlet/runtimehooks/protocol"
	"github.com/koordinator-sh/koordinator/pkg/koordlet/statesinformer"
	koordletutil "github.com/koordinator-sh/koordinator/pkg/koordlet/util"
	sysutil "github.com/koordinator-sh/koordinator/pkg/koordlet/util/system"
	"github.com/koordinator-sh/koordinator/pkg/util/cache"
)

// C12 harness `rulecb`: the REAL caller of LeveledUpdateBatch for the BE cfs quota.
// One case = BE pods (1-3 containers each, batch-cpu limits) plus bystander pods in a temp cgroup root (cgroup v1 or
// v2, systemd or cgroupfs names) and a history of rule changes (cpu-normalization ratio up / down / off through
// parseRuleForNodeMeta, cfs-quota switch through parseRuleForNodeSLO), each followed by the real
// ruleUpdateCbForNodeMeta on the real executor with a fresh ResourceCache.
// The executor handed to the plugin forwards every call to the real ResourceUpdateExecutorImpl after wrapping each
// updater in a struct that embeds it (unexported update() promoted unchanged) and looks at all files of the tree
// whenever the executor calls one of the exported methods the two sweeps call around each file access
// (Key() at the start of every iteration, MergeUpdate(), UpdateLastUpdateTimestamp()): a file whose mtime moved
// off the sentinel was written.  So every single-write state is seen.
// Op lines: the batch the callback HAS TO build according to the harness' own reading of the rule
// ([pods, containers], quota = ceil(limit*100/ratio), every updater mergeable); observations: the writes in order
// and the final contents.  Oracle: after every write each container's quota <= its pod's (-1 = unlimited on top).

var c12rcSentinel = time.Unix(1000000, 0)

type c12rcTree struct {
	h       *vHarness
	v2      bool
	parent  []int
	paths   []string
	vals    []int64
	writes  [][2]int64
	bad     bool
	garble  bool
	multi   bool
	nonMerg int
}

func c12rcParse(content string) (int64, bool) {
	f := strings.Fields(strings.Trim(content, "\n"))
	if len(f) < 1 || len(f) > 2 {
		return 0, false
	}
	if f[0] == "max" || f[0] == "-1" {
		return -1, true
	}
	v, err := strconv.ParseInt(f[0], 10, 64)
	if err != nil || v < 0 {
		return 0, false
	}
	return v, true
}

// child's limit no larger than its parent's; -1 = unlimited
func c12rcLe(a, b int64) bool {
	if b == -1 {
		return true
	}
	return a != -1 && a <= b
}

func (t *c12rcTree) valid(v []int64) bool {
	for c, p := range t.parent {
		if p >= 0 && !c12rcLe(v[c], v[p]) {
			return false
		}
	}
	return true
}

func (t *c12rcTree) arm(i int) { _ = os.Chtimes(t.paths[i], c12rcSentinel, c12rcSentinel) }

func (t *c12rcTree) fileStr(v int64) string {
	s := strconv.FormatInt(v, 10)
	if v == -1 && t.v2 {
		s = "max"
	}
	if t.v2 {
		s += " 100000"
	}
	return s
}

func (t *c12rcTree) inspect() {
	n := 0
	for i, p := range t.paths {
		st, err := os.Stat(p)
		if err != nil {
			t.h.Obs("gone %d", i)
			t.garble = true
			continue
		}
		if st.ModTime().Equal(c12rcSentinel) {
			continue
		}
		n++
		b, _ := os.ReadFile(p)
		v, ok := c12rcParse(string(b))
		if !ok {
			v = -3
			t.garble = true
		}
		t.h.Obs("w %d %d", i, v)
		t.writes = append(t.writes, [2]int64{int64(i), v})
		t.vals[i] = v
		if t.v2 && ok { // the kernel shows "<quota|max> <period>"
			_ = os.WriteFile(p, []byte(t.fileStr(v)), 0o644)
		}
		t.arm(i)
		if !t.garble && !t.valid(t.vals) {
			t.bad = true
		}
	}
	if n > 1 {
		t.multi = true
	}
}

type c12rcUpd struct {
	resourceexecutor.ResourceUpdater
	t *c12rcTree
}

func (w *c12rcUpd) Key() string { w.t.inspect(); return w.ResourceUpdater.Key() }
func (w *c12rcUpd) MergeUpdate() (resourceexecutor.ResourceUpdater, error) {
	w.t.inspect()
	m, err := w.ResourceUpdater.MergeUpdate()
	w.t.inspect()
	if m == nil && err == nil {
		w.t.nonMerg++
	}
	return m, err
}
func (w *c12rcUpd) UpdateLastUpdateTimestamp(ts time.Time) {
	w.t.inspect()
	w.ResourceUpdater.UpdateLastUpdateTimestamp(ts)
}

type c12rcExec struct {
	inner *resourceexecutor.ResourceUpdateExecutorImpl
	t     *c12rcTree
	calls int
}

func (e *c12rcExec) wrap(u resourceexecutor.ResourceUpdater) resourceexecutor.ResourceUpdater {
	return &c12rcUpd{ResourceUpdater: u, t: e.t}
}
func (e *c12rcExec) Update(cacheable bool, u resourceexecutor.ResourceUpdater) (bool, error) {
	ok, err := e.inner.Update(cacheable, e.wrap(u))
	e.t.inspect()
	return ok, err
}
func (e *c12rcExec) UpdateBatch(cacheable bool, us ...resourceexecutor.ResourceUpdater) {
	ws := make([]resourceexecutor.ResourceUpdater, len(us))
	for i, u := range us {
		ws[i] = e.wrap(u)
	}
	e.inner.UpdateBatch(cacheable, ws...)
	e.t.inspect()
}
func (e *c12rcExec) LeveledUpdateBatch(us [][]resourceexecutor.ResourceUpdater) {
	e.calls++
	ws := make([][]resourceexecutor.ResourceUpdater, len(us))
	for i, l := range us {
		for _, u := range l {
			ws[i] = append(ws[i], e.wrap(u))
		}
	}
	e.inner.LeveledUpdateBatch(ws)
	e.t.inspect()
}
func (e *c12rcExec) Run(stopCh <-chan struct{}) { e.inner.Run(stopCh) }

// ---- the harness' own reading of the rule (batch_resource.go SetPodCFSQuota / SetContainerCFSQuota) ----

// limit in milli-cpu: >0 a limit, 0 = "batch-cpu: 0", -1 = no batch-cpu limit entry
func c12rcQuota(milli int64, enabled bool, ratio float64) int64 {
	if !enabled {
		return -1
	}
	q := milli * 100000 / 1000
	if q <= 0 {
		return -1
	}
	if q < 1000 {
		q = 1000
	}
	if ratio > 1.0 {
		q = int64(math.Ceil(float64(q) / ratio))
	}
	return q
}

func c12rcPodQuota(lims []int64, enabled bool, ratio float64) int64 {
	var sum int64
	for _, l := range lims {
		if l <= 0 {
			return c12rcQuota(-1, enabled, ratio)
		}
		sum += l
	}
	return c12rcQuota(sum, enabled, ratio)
}

// the facts Props/C12.lean `ScaleOK` assumes of q -> int64(ceil(float64(q)/ratio)), re-evaluated on the quotas of a round
func c12rcScaleOK(ratio float64, qs []int64) (bool, string) {
	sc := func(q int64) int64 {
		if ratio > 1.0 {
			return int64(math.Ceil(float64(q) / ratio))
		}
		return q
	}
	for _, a := range qs {
		if a <= 0 {
			continue
		}
		if sc(a) <= 0 || sc(a) > a {
			return false, fmt.Sprintf("scale(%d)=%d at ratio %v", a, sc(a), ratio)
		}
		for _, b := range qs {
			if a <= b && sc(a) > sc(b) {
				return false, fmt.Sprintf("scale(%d)=%d > scale(%d)=%d at ratio %v", a, sc(a), b, sc(b), ratio)
			}
		}
	}
	return true, ""
}

type c12rcPod struct {
	meta  *statesinformer.PodMeta
	be    bool  // carries batch resources and the BE label: the callback rewrites it
	node  int   // pod dir
	ctrs  []int // container dirs
	lims  []int64
	hasER bool
}

var c12rcLimPool = []int64{500, 1000, 1500, 2000, 333, 250, 4000, 3, 0, -1}
var c12rcRatios = []float64{-1, 1.0, 1.1, 1.2, 1.5, 2.0, 3.0}

func TestVerifC12RuleCb(t *testing.T) {
	h := vOpen("C12")
	if h == nil {
		t.Skip("VERIF_OUT not set")
	}
	oldRoot, oldV2 := sysutil.Conf.CgroupRootDir, sysutil.UseCgroupsV2.Load()
	defer func() {
		sysutil.Conf.CgroupRootDir = oldRoot
		sysutil.UseCgroupsV2.Store(oldV2)
		sysutil.SetupCgroupPathFormatter(sysutil.Systemd)
	}()
	base := t.TempDir()

	n := h.N(1000, 10000)
	for idx := 0; idx < n; idx++ {
		r := h.Begin(idx)
		if r == nil {
			continue
		}
		root := filepath.Join(base, fmt.Sprintf("c%d", idx))
		sysutil.Conf.CgroupRootDir = root
		v2 := r.Bool()
		sysutil.UseCgroupsV2.Store(v2)
		systemd := r.Bool()
		if systemd {
			sysutil.SetupCgroupPathFormatter(sysutil.Systemd)
		} else {
			sysutil.SetupCgroupPathFormatter(sysutil.Cgroupfs)
		}
		file, err := sysutil.GetCgroupResource(sysutil.CPUCFSQuotaName)
		if err != nil {
			t.Fatal(err)
		}
		tr := &c12rcTree{h: h, v2: v2}
		var dirs []string
		addDir := func(dir string, parent int) int {
			dirs = append(dirs, dir)
			tr.parent = append(tr.parent, parent)
			p := file.Path(dir)
			tr.paths = append(tr.paths, p)
			if err := os.MkdirAll(filepath.Dir(p), 0o755); err != nil {
				t.Fatal(err)
			}
			return len(dirs) - 1
		}
		// pods
		np := r.Range(1, 3)
		var pods []*c12rcPod
		for pi := 0; pi < np; pi++ {
			p := &c12rcPod{be: !r.Chance(1, 6), hasER: true}
			uid := fmt.Sprintf("u%dx%d", idx, pi)
			var podDir string
			qosDir := "besteffort"
			if !p.be && r.Bool() {
				qosDir = "burstable"
			}
			if systemd {
				podDir = fmt.Sprintf("kubepods.slice/kubepods-%s.slice/kubepods-%s-pod%s.slice/", qosDir, qosDir, uid)
			} else {
				podDir = fmt.Sprintf("kubepods/%s/pod%s/", qosDir, uid)
			}
			p.node = addDir(podDir, -1)
			pod := &corev1.Pod{
				ObjectMeta: metav1.ObjectMeta{Name: "p" + uid, Namespace: "ns", UID: types.UID(uid), Labels: map[string]string{}},
				Status:     corev1.PodStatus{Phase: corev1.PodRunning},
			}
			if p.be {
				pod.Labels[apiext.LabelPodQoS] = string(apiext.QoSBE)
				if r.Chance(1, 8) {
					p.hasER = false // a BE pod without batch resources: SetPodCFSQuota leaves it alone
				}
			} else if r.Bool() {
				pod.Labels[apiext.LabelPodQoS] = string(apiext.QoSLS)
			}
			nc := r.Range(1, 3)
			for ci := 0; ci < nc; ci++ {
				lim := r.Pick(c12rcLimPool)
				if r.Chance(1, 2) {
					lim = int64(r.Range(1, 40)) * 100
				}
				cname := fmt.Sprintf("c%d", ci)
				cid := fmt.Sprintf("containerd://k%dx%dx%d", idx, pi, ci)
				c := corev1.Container{Name: cname}
				if p.be && p.hasER {
					c.Resources.Requests = corev1.ResourceList{apiext.BatchCPU: *resource.NewQuantity(100, resource.DecimalSI)}
					if lim >= 0 {
						c.Resources.Limits = corev1.ResourceList{apiext.BatchCPU: *resource.NewQuantity(lim, resource.DecimalSI)}
					} else if r.Bool() {
						c.Resources.Limits = corev1.ResourceList{apiext.BatchMemory: *resource.NewQuantity(1<<30, resource.BinarySI)}
					}
				} else {
					c.Resources.Limits = corev1.ResourceList{corev1.ResourceCPU: *resource.NewMilliQuantity(lim+100, resource.DecimalSI)}
				}
				pod.Spec.Containers = append(pod.Spec.Containers, c)
				pod.Status.ContainerStatuses = append(pod.Status.ContainerStatuses, corev1.ContainerStatus{Name: cname, ContainerID: cid})
				cdir, err := koordletutil.GetContainerCgroupParentDirByID(podDir, cid)
				if err != nil {
					t.Fatal(err)
				}
				p.ctrs = append(p.ctrs, addDir(cdir, p.node))
				p.lims = append(p.lims, lim)
			}
			p.meta = &statesinformer.PodMeta{Pod: pod, CgroupDir: podDir}
			pods = append(pods, p)
		}
		nn := len(dirs)
		// what a (enabled, ratio) state asks of every dir the callback owns
		want := func(enabled bool, ratio float64, cur []int64) []int64 {
			w := append([]int64(nil), cur...)
			for _, p := range pods {
				if !(p.be && p.hasER) {
					continue
				}
				w[p.node] = c12rcPodQuota(p.lims, enabled, ratio)
				for k, c := range p.ctrs {
					w[c] = c12rcQuota(p.lims[k], enabled, ratio)
				}
			}
			return w
		}
		// start: what kubelet / an earlier round left
		start := make([]int64, nn)
		for i := range start {
			start[i] = -1
		}
		for _, p := range pods { // bystanders hold something finite
			if !(p.be && p.hasER) {
				start[p.node] = 400000
				for _, c := range p.ctrs {
					start[c] = int64(r.Range(1, 4)) * 100000
				}
			}
		}
		enabled, ratio := true, -1.0
		switch r.Intn(4) {
		case 0: // everything unlimited
		case 1:
			start = want(true, -1, start)
		default:
			ratio = c12rcRatios[r.Intn(len(c12rcRatios))]
			start = want(true, ratio, start)
		}
		tr.vals = append([]int64(nil), start...)
		for i := range dirs {
			if err := os.WriteFile(tr.paths[i], []byte(tr.fileStr(start[i])), 0o644); err != nil {
				t.Fatal(err)
			}
			tr.arm(i)
		}
		pi64 := make([]int64, nn)
		for i, p := range tr.parent {
			pi64[i] = int64(p)
		}
		h.Op("tree 1 %d %d %s %s", vB(v2), nn, vInts(pi64), vInts(start))
		h.Tag(fmt.Sprintf("rulecb:v2=%d:systemd=%d", vB(v2), vB(systemd)))
		h.Tag(fmt.Sprintf("rulecb:dirs:%d", nn))

		real := &resourceexecutor.ResourceUpdateExecutorImpl{ResourceCache: cache.NewCacheDefault(), Config: resourceexecutor.NewDefaultConfig()}
		stop := make(chan struct{})
		real.Run(stop)
		ex := &c12rcExec{inner: real, t: tr}
		p := newPlugin()
		p.executor = ex
		// the rule starts in the state the files were written for
		p.rule.UpdateCFSQuotaEnabled(enabled)
		if ratio != -1.0 || r.Bool() {
			p.rule.UpdateCPUNormalizationRatio(ratio)
		}

		steps := r.Range(1, 4)
		for s := 0; s < steps; s++ {
			// rule change through the real parse functions
			if r.Chance(1, 5) {
				enabled = !enabled
				pol := slov1alpha1.CPUSetPolicy
				if !enabled {
					pol = slov1alpha1.CPUCfsQuotaPolicy
				}
				spec := &slov1alpha1.NodeSLOSpec{ResourceUsedThresholdWithBE: &slov1alpha1.ResourceThresholdStrategy{
					Enable: ptr.To[bool](true), CPUSuppressPolicy: pol}}
				if _, err := p.parseRuleForNodeSLO(spec); err != nil {
					t.Fatal(err)
				}
				h.Tag("rulecb:toggle-cfs-quota")
			}
			if !r.Chance(1, 6) {
				nr := c12rcRatios[r.Intn(len(c12rcRatios))]
				node := &corev1.Node{ObjectMeta: metav1.ObjectMeta{Name: "n"}}
				if nr > 0 {
					node.Annotations = map[string]string{apiext.AnnotationCPUNormalizationRatio: strconv.FormatFloat(nr, 'f', 2, 64)}
				} else if r.Bool() {
					node.Annotations = map[string]string{}
				}
				if _, err := p.parseRuleForNodeMeta(node); err != nil {
					t.Fatal(err)
				}
				switch {
				case nr > ratio && nr > 1:
					h.Tag("rulecb:ratio-up(shrink)")
				case nr < ratio && ratio > 1:
					h.Tag("rulecb:ratio-down(grow)")
				default:
					h.Tag("rulecb:ratio-same")
				}
				ratio = nr
			}
			// which pods the informer shows this round
			var metas []*statesinformer.PodMeta
			var shown []*c12rcPod
			for _, q := range pods {
				if !r.Chance(1, 10) && !(len(pods) > 1 && r.Chance(1, 6)) {
					metas = append(metas, q.meta)
					shown = append(shown, q)
				}
			}
			expired := r.Chance(1, 4)
			real.Config.ResourceForceUpdateSeconds = 60
			if expired {
				real.Config.ResourceForceUpdateSeconds = -1
			}
			begin := append([]int64(nil), tr.vals...)
			full := want(enabled, ratio, begin)
			tgt := append([]int64(nil), begin...)
			var lvPods, lvCtrs []int64
			for _, q := range shown {
				if !(q.be && q.hasER) {
					continue
				}
				tgt[q.node] = full[q.node]
				lvPods = append(lvPods, int64(q.node), full[q.node], 1)
				for _, c := range q.ctrs {
					tgt[c] = full[c]
					lvCtrs = append(lvCtrs, int64(c), full[c], 1)
				}
			}
			h.Op("batchk %d 2 %d %d %s", vB(expired), len(lvPods)/3, len(lvCtrs)/3, strings.TrimSpace(vInts(lvPods)+" "+vInts(lvCtrs)))

			tr.writes, tr.bad, tr.garble, tr.multi, tr.nonMerg = tr.writes[:0], false, false, false, 0
			ex.calls = 0
			if h.Guard(func() {
				if err := p.ruleUpdateCbForNodeMeta(&statesinformer.CallbackTarget{Pods: metas}); err != nil {
					h.Obs("err")
				}
			}) {
				h.Obs("panic")
			}
			tr.inspect()
			final := make([]int64, nn)
			for i, pth := range tr.paths {
				b, _ := os.ReadFile(pth)
				v, ok := c12rcParse(string(b))
				if !ok {
					v = -3
				}
				final[i] = v
			}
			h.Obs("st %s", vInts(final))

			// float assumption of rule_targets_valid
			{
				var qs []int64
				for _, q := range pods {
					if q.be && q.hasER {
						qs = append(qs, c12rcPodQuota(q.lims, true, -1))
						for _, l := range q.lims {
							qs = append(qs, c12rcQuota(l, true, -1))
						}
					}
				}
				if ok, why := c12rcScaleOK(ratio, qs); !ok {
					h.Fail("C12:float-assumption", "ScaleOK does not hold: %s", why)
				}
			}
			// ---------------- property oracle ----------------
			changed := 0
			for i := range tgt {
				if tgt[i] != begin[i] {
					changed++
				}
			}
			if tr.nonMerg > 0 {
				h.Tag("rulecb:updater-not-mergeable-observed")
			}
			if tr.multi {
				h.Tag("rulecb:several-writes-between-two-looks")
			}
			if tr.valid(begin) && tr.valid(tgt) && !tr.garble {
				h.Tag("rulecb:oracle:full")
				if changed > 0 {
					h.Nontrivial()
				}
				if tr.bad {
					h.Fail("C12:rulecb-invalid-intermediate", "batchresource ruleUpdateCbForNodeMeta: after some write a container's cfs quota exceeds its pod's (v2 %v, parents %v, start %v, target %v, writes %v)", v2, tr.parent, begin, tgt, tr.writes)
				}
			} else {
				h.Tag("rulecb:oracle:final-only")
			}
			for i := range tgt {
				if final[i] != tgt[i] {
					h.Fail("C12:rulecb-final-not-target", "dir %d holds %d, target %d (start %v, target %v)", i, final[i], tgt[i], begin, tgt)
					break
				}
			}
			if !v2 {
				cur := append([]int64(nil), begin...)
				for _, w := range tr.writes {
					i, v := int(w[0]), w[1]
					if tgt[i] == begin[i] || cur[i] == v {
						h.Fail("C12:rulecb-redundant-write", "dir %d (start %d, target %d) written with %d while holding %d", i, begin[i], tgt[i], v, cur[i])
						break
					}
					cur[i] = v
				}
			}
			if changed > 0 {
				shr, grw := false, false
				for i := range tgt {
					if tgt[i] != begin[i] {
						if c12rcLe(tgt[i], begin[i]) {
							shr = true
						} else {
							grw = true
						}
					}
				}
				h.Tag(fmt.Sprintf("rulecb:shrink=%d:grow=%d", vB(shr), vB(grw)))
			} else {
				h.Tag("rulecb:no-change")
			}
			h.Tag(fmt.Sprintf("rulecb:leveled-calls:%d", ex.calls))
		}
		close(stop)
		h.End()
		_ = os.RemoveAll(root)
	}
	h.Close("1-3 pods (BE with batch-cpu limits 3m..4000m / 0 / none, BE without batch resources, LS / unlabeled bystanders) with 1-3 containers in a temp cgroup root " +
		"(cgroup v1/v2, systemd/cgroupfs), start = all unlimited / kubelet values / values of a random ratio; 1-4 rounds of rule changes (ratio off/1.0..3.0 through " +
		"parseRuleForNodeMeta, cfs-quota switch through parseRuleForNodeSLO), a random 90% of the pods shown, cache fresh or force-expired, then the real " +
		"ruleUpdateCbForNodeMeta; non-trivial = full oracle and >= 1 dir changes; distinct by op lines")
}

// C12 harness `quota`: the arithmetic behind the targets (Model/C12Rule.lean podQuota / ctrQuota, linked into the
// driver): one line = one BE pod handed to the real SetPodCFSQuota / SetContainerCFSQuota through FromReconciler under
// a rule (cfs quota on/off, ratio k/100); observation = the quotas the setters put into the responses.
// Oracle = rule_targets_valid's statement: every container's quota is within its pod's.
func TestVerifC12Quota(t *testing.T) {
	h := vOpen("C12")
	if h == nil {
		t.Skip("VERIF_OUT not set")
	}
	sysutil.SetupCgroupPathFormatter(sysutil.Systemd)
	ratios := []int64{-100, 100, 101, 110, 120, 133, 150, 200, 300, 80, 99, 1000, 117}
	n := h.N(1500, 40000)
	for idx := 0; idx < n; idx++ {
		r := h.Begin(idx)
		if r == nil {
			continue
		}
		lines := r.Range(1, 4)
		for ln := 0; ln < lines; ln++ {
			ratio100 := ratios[r.Intn(len(ratios))]
			if r.Chance(1, 4) {
				ratio100 = int64(r.Range(90, 400))
			}
			enabled := !r.Chance(1, 8)
			p := newPlugin()
			p.rule.UpdateCFSQuotaEnabled(enabled)
			if ratio100 > 0 || r.Bool() {
				p.rule.UpdateCPUNormalizationRatio(float64(ratio100) / 100.0)
			}
			pod := &corev1.Pod{
				ObjectMeta: metav1.ObjectMeta{Name: "p", Namespace: "ns", UID: "u", Labels: map[string]string{apiext.LabelPodQoS: string(apiext.QoSBE)}},
				Status:     corev1.PodStatus{Phase: corev1.PodRunning},
			}
			nc := r.Range(1, 4)
			var lims []int64
			for ci := 0; ci < nc; ci++ {
				lim := r.Pick(c12rcLimPool)
				switch r.Intn(4) {
				case 0:
					lim = int64(r.Range(1, 64000))
				case 1:
					lim = int64(r.Range(1, 40)) * 100
				}
				cname := fmt.Sprintf("c%d", ci)
				c := corev1.Container{Name: cname}
				c.Resources.Requests = corev1.ResourceList{apiext.BatchCPU: *resource.NewQuantity(100, resource.DecimalSI)}
				if lim >= 0 {
					c.Resources.Limits = corev1.ResourceList{apiext.BatchCPU: *resource.NewQuantity(lim, resource.DecimalSI)}
				} else if r.Bool() {
					c.Resources.Limits = corev1.ResourceList{apiext.BatchMemory: *resource.NewQuantity(1<<30, resource.BinarySI)}
				}
				pod.Spec.Containers = append(pod.Spec.Containers, c)
				pod.Status.ContainerStatuses = append(pod.Status.ContainerStatuses, corev1.ContainerStatus{Name: cname, ContainerID: "containerd://k" + cname})
				lims = append(lims, lim)
			}
			meta := &statesinformer.PodMeta{Pod: pod, CgroupDir: "kubepods.slice/kubepods-besteffort.slice/kubepods-besteffort-podu.slice/"}
			h.Op("pq %d %d %s", ratio100, vB(enabled), vInts(lims))
			out := make([]int64, 0, nc+1)
			get := func(q *int64) int64 {
				if q == nil {
					return -2
				}
				return *q
			}
			if h.Guard(func() {
				podCtx := &protocol.PodContext{}
				podCtx.FromReconciler(meta)
				if err := p.SetPodCFSQuota(podCtx); err != nil {
					out = append(out, -3)
				} else {
					out = append(out, get(podCtx.Response.Resources.CFSQuota))
				}
				for _, cs := range pod.Status.ContainerStatuses {
					cctx := &protocol.ContainerContext{}
					cctx.FromReconciler(meta, cs.Name, false)
					if err := p.SetContainerCFSQuota(cctx); err != nil {
						out = append(out, -3)
					} else {
						out = append(out, get(cctx.Response.Resources.CFSQuota))
					}
				}
			}) {
				h.Obs("panic")
				continue
			}
			h.Obs("q %s", vInts(out))
			h.Nontrivial()
			h.Tag(fmt.Sprintf("quota:enabled=%d:scaled=%d:podUnlimited=%d", vB(enabled), vB(ratio100 > 100), vB(out[0] == -1)))
			for i := 1; i < len(out); i++ {
				if out[0] < -1 || out[i] < -1 || !c12rcLe(out[i], out[0]) {
					h.Fail("C12:quota-target-invalid", "ratio %d/100 enabled %v limits %v: quotas %v - container %d is not within its pod", ratio100, enabled, lims, out, i-1)
					break
				}
			}
		}
		h.End()
	}
	h.Close("1-4 BE pods per case, 1-4 containers with batch-cpu limits 1m..64000m / 0 / absent, rule: cfs quota on (7/8) / off, ratio unset / 0.8 .. 10.0 in hundredths; " +
		"every case non-trivial; distinct by op lines")
}
