//go:build verif

package cpunormalization

import (
	"fmt"
	"math"
	"os"
	"path/filepath"
	"strconv"
	"strings"
	"testing"
	"time"

	corev1 "k8s.io/api/core/v1"
	"k8s.io/apimachinery/pkg/api/resource"
	metav1 "k8s.io/apimachinery/pkg/apis/meta/v1"
	"k8s.io/apimachinery/pkg/types"

	apiext "github.com/koordinator-sh/koordinator/apis/extension"
	"github.com/koordinator-sh/koordinator/pkg/koordlet/resourceexecutor"
	"github.com/koordinator-sh/koordinator/pkg/koordlet/runtimehooks/protocol"
	"github.com/koordinator-sh/koordinator/pkg/koordlet/statesinformer"
	koordletutil "github.com/koordinator-sh/koordinator/pkg/koordlet/util"
	sysutil "github.com/koordinator-sh/koordinator/pkg/koordlet/util/system"
	"github.com/koordinator-sh/koordinator/pkg/util/cache"
)

// C12 harness `normcb`: the REAL caller of LeveledUpdateBatch for the cfs quota of LS / unlabeled pods under cpu
// normalization.  One case = LS / None pods (1-3 containers each, cpu limits) plus bystanders (BE, LSR, no limits,
// terminated) in a temp cgroup root (cgroup v1 or v2, systemd or cgroupfs names) and a history of ratio changes
// (node annotation through the real parseRule: up / down / 1.0 / removed), each followed by the real ruleUpdateCb on
// the real executor with a fresh ResourceCache.  Snapshot technique, op lines, observations and oracle exactly as in
// batchresource/verif_c12_rulecb_test.go: the executor handed to the plugin wraps every updater in a struct that
// embeds it and looks at all files whenever the sweeps call Key() / MergeUpdate() / UpdateLastUpdateTimestamp();
// the op line is the batch the callback HAS TO build ([pods, containers], quota = ceil(limit*100/ratio) for ratio > 1,
// the unscaled quota for ratio <= 1, nothing while the rule is off; every updater mergeable).

var c12ncSentinel = time.Unix(1000000, 0)

type c12ncTree struct {
	h       *vHarness
	v2      bool
	parent  []int
	paths   []string
	vals    []int64
	writes  [][2]int64
	bad     bool
	garble  bool
	multi   bool
	nonMerg int
}

func c12ncParse(content string) (int64, bool) {
	f := strings.Fields(strings.Trim(content, "\n"))
	if len(f) < 1 || len(f) > 2 {
		return 0, false
	}
	if f[0] == "max" || f[0] == "-1" {
		return -1, true
	}
	v, err := strconv.ParseInt(f[0], 10, 64)
	if err != nil || v < 0 {
		return 0, false
	}
	return v, true
}

// child's limit no larger than its parent's; -1 = unlimited
func c12ncLe(a, b int64) bool {
	if b == -1 {
		return true
	}
	return a != -1 && a <= b
}

func (t *c12ncTree) valid(v []int64) bool {
	for c, p := range t.parent {
		if p >= 0 && !c12ncLe(v[c], v[p]) {
			return false
		}
	}
	return true
}

func (t *c12ncTree) arm(i int) { _ = os.Chtimes(t.paths[i], c12ncSentinel, c12ncSentinel) }

func (t *c12ncTree) fileStr(v int64) string {
	s := strconv.FormatInt(v, 10)
	if v == -1 && t.v2 {
		s = "max"
	}
	if t.v2 {
		s += " 100000"
	}
	return s
}

func (t *c12ncTree) inspect() {
	n := 0
	for i, p := range t.paths {
		st, err := os.Stat(p)
		if err != nil {
			t.h.Obs("gone %d", i)
			t.garble = true
			continue
		}
		if st.ModTime().Equal(c12ncSentinel) {
			continue
		}
		n++
		b, _ := os.ReadFile(p)
		v, ok := c12ncParse(string(b))
		if !ok {
			v = -3
			t.garble = true
		}
		t.h.Obs("w %d %d", i, v)
		t.writes = append(t.writes, [2]int64{int64(i), v})
		t.vals[i] = v
		if t.v2 && ok { // the kernel shows "<quota|max> <period>"
			_ = os.WriteFile(p, []byte(t.fileStr(v)), 0o644)
		}
		t.arm(i)
		if !t.garble && !t.valid(t.vals) {
			t.bad = true
		}
	}
	if n > 1 {
		t.multi = true
	}
}

type c12ncUpd struct {
	resourceexecutor.ResourceUpdater
	t *c12ncTree
}

func (w *c12ncUpd) Key() string { w.t.inspect(); return w.ResourceUpdater.Key() }
func (w *c12ncUpd) MergeUpdate() (resourceexecutor.ResourceUpdater, error) {
	w.t.inspect()
	m, err := w.ResourceUpdater.MergeUpdate()
	w.t.inspect()
	if m == nil && err == nil {
		w.t.nonMerg++
	}
	return m, err
}
func (w *c12ncUpd) UpdateLastUpdateTimestamp(ts time.Time) {
	w.t.inspect()
	w.ResourceUpdater.UpdateLastUpdateTimestamp(ts)
}

type c12ncExec struct {
	inner *resourceexecutor.ResourceUpdateExecutorImpl
	t     *c12ncTree
	calls int
}

func (e *c12ncExec) wrap(u resourceexecutor.ResourceUpdater) resourceexecutor.ResourceUpdater {
	return &c12ncUpd{ResourceUpdater: u, t: e.t}
}
func (e *c12ncExec) Update(cacheable bool, u resourceexecutor.ResourceUpdater) (bool, error) {
	ok, err := e.inner.Update(cacheable, e.wrap(u))
	e.t.inspect()
	return ok, err
}
func (e *c12ncExec) UpdateBatch(cacheable bool, us ...resourceexecutor.ResourceUpdater) {
	ws := make([]resourceexecutor.ResourceUpdater, len(us))
	for i, u := range us {
		ws[i] = e.wrap(u)
	}
	e.inner.UpdateBatch(cacheable, ws...)
	e.t.inspect()
}
func (e *c12ncExec) LeveledUpdateBatch(us [][]resourceexecutor.ResourceUpdater) {
	e.calls++
	ws := make([][]resourceexecutor.ResourceUpdater, len(us))
	for i, l := range us {
		for _, u := range l {
			ws[i] = append(ws[i], e.wrap(u))
		}
	}
	e.inner.LeveledUpdateBatch(ws)
	e.t.inspect()
}
func (e *c12ncExec) Run(stopCh <-chan struct{}) { e.inner.Run(stopCh) }

// ---- the harness' own reading of the rule (cpu_normalization.go adjustPodCFSQuota / adjustContainerCFSQuota) ----

// kubelet's quota for a cpu limit in milli-cpu (protocol.Resources.FromPod / FromContainer)
func c12ncBase(milli int64) int64 {
	q := milli * 100000 / 1000
	if q <= 0 {
		return -1
	}
	if q < 1000 {
		q = 1000
	}
	return q
}

func c12ncScaled(q int64, ratio float64) int64 {
	if ratio > 1.0 {
		return int64(math.Ceil(float64(q) / ratio))
	}
	return q
}

// the facts Props/C12.lean `ScaleOK` assumes of q -> int64(ceil(float64(q)/ratio)), re-evaluated on the quotas of a round
func c12ncScaleOK(ratio float64, qs []int64) (bool, string) {
	sc := func(q int64) int64 {
		if ratio > 1.0 {
			return int64(math.Ceil(float64(q) / ratio))
		}
		return q
	}
	for _, a := range qs {
		if a <= 0 {
			continue
		}
		if sc(a) <= 0 || sc(a) > a {
			return false, fmt.Sprintf("scale(%d)=%d at ratio %v", a, sc(a), ratio)
		}
		for _, b := range qs {
			if a <= b && sc(a) > sc(b) {
				return false, fmt.Sprintf("scale(%d)=%d > scale(%d)=%d at ratio %v", a, sc(a), b, sc(b), ratio)
			}
		}
	}
	return true, ""
}

type c12ncPod struct {
	meta *statesinformer.PodMeta
	own  bool  // LS / unlabeled, running or pending, without cpuset annotation, with cpu limits: the callback rewrites it
	node int   // pod dir
	ctrs []int // container dirs
	lims []int64
}

var c12ncLimPool = []int64{500, 1000, 1500, 2000, 333, 250, 4000, 5}
var c12ncRatios = []float64{-1, 1.0, 1.1, 1.2, 1.5, 2.0, 3.0, 0.8}

func TestVerifC12NormCb(t *testing.T) {
	h := vOpen("C12")
	if h == nil {
		t.Skip("VERIF_OUT not set")
	}
	oldRoot, oldV2 := sysutil.Conf.CgroupRootDir, sysutil.UseCgroupsV2.Load()
	defer func() {
		sysutil.Conf.CgroupRootDir = oldRoot
		sysutil.UseCgroupsV2.Store(oldV2)
		sysutil.SetupCgroupPathFormatter(sysutil.Systemd)
	}()
	base := t.TempDir()

	n := h.N(1000, 10000)
	for idx := 0; idx < n; idx++ {
		r := h.Begin(idx)
		if r == nil {
			continue
		}
		root := filepath.Join(base, fmt.Sprintf("c%d", idx))
		sysutil.Conf.CgroupRootDir = root
		v2 := r.Bool()
		sysutil.UseCgroupsV2.Store(v2)
		systemd := r.Bool()
		if systemd {
			sysutil.SetupCgroupPathFormatter(sysutil.Systemd)
		} else {
			sysutil.SetupCgroupPathFormatter(sysutil.Cgroupfs)
		}
		file, err := sysutil.GetCgroupResource(sysutil.CPUCFSQuotaName)
		if err != nil {
			t.Fatal(err)
		}
		tr := &c12ncTree{h: h, v2: v2}
		var dirs []string
		addDir := func(dir string, parent int) int {
			dirs = append(dirs, dir)
			tr.parent = append(tr.parent, parent)
			p := file.Path(dir)
			tr.paths = append(tr.paths, p)
			if err := os.MkdirAll(filepath.Dir(p), 0o755); err != nil {
				t.Fatal(err)
			}
			return len(dirs) - 1
		}
		np := r.Range(1, 3)
		var pods []*c12ncPod
		for pi := 0; pi < np; pi++ {
			p := &c12ncPod{own: true}
			uid := fmt.Sprintf("u%dx%d", idx, pi)
			pod := &corev1.Pod{
				ObjectMeta: metav1.ObjectMeta{Name: "p" + uid, Namespace: "ns", UID: types.UID(uid)},
				Status:     corev1.PodStatus{Phase: corev1.PodRunning},
			}
			limited := true
			switch k := r.Intn(12); {
			case k == 0: // BE bystander
				pod.Labels = map[string]string{apiext.LabelPodQoS: string(apiext.QoSBE)}
				p.own = false
			case k == 1: // LSR bystander
				pod.Labels = map[string]string{apiext.LabelPodQoS: string(apiext.QoSLSR)}
				p.own = false
			case k == 2: // unlabeled but cpuset-bound (counted as LSR)
				pod.Labels = map[string]string{"app": "x"}
				pod.Annotations = map[string]string{apiext.AnnotationResourceStatus: `{"cpuset":"0-1"}`}
				p.own = false
			case k == 3: // terminated
				pod.Labels = map[string]string{apiext.LabelPodQoS: string(apiext.QoSLS)}
				pod.Status.Phase = corev1.PodSucceeded
				p.own = false
			case k == 4: // no cpu limits at all: quota -1, left alone
				pod.Labels = map[string]string{apiext.LabelPodQoS: string(apiext.QoSLS)}
				limited = false
				p.own = false
			case k <= 8:
				pod.Labels = map[string]string{apiext.LabelPodQoS: string(apiext.QoSLS)}
			case k == 9:
				pod.Labels = map[string]string{"app": "x"}
			case k == 10:
				pod.Status.Phase = corev1.PodPending // labels nil
			default:
				pod.Labels = map[string]string{apiext.LabelPodQoS: string(apiext.QoSLS)}
				pod.Annotations = map[string]string{"foo": "bar"}
			}
			podDir := fmt.Sprintf("kubepods/burstable/pod%s/", uid)
			if systemd {
				podDir = fmt.Sprintf("kubepods.slice/kubepods-burstable.slice/kubepods-burstable-pod%s.slice/", uid)
			}
			p.node = addDir(podDir, -1)
			nc := r.Range(1, 3)
			for ci := 0; ci < nc; ci++ {
				lim := r.Pick(c12ncLimPool)
				if r.Chance(1, 2) {
					lim = int64(r.Range(1, 40)) * 100
				}
				cname := fmt.Sprintf("c%d", ci)
				cid := fmt.Sprintf("containerd://k%dx%dx%d", idx, pi, ci)
				c := corev1.Container{Name: cname}
				c.Resources.Requests = corev1.ResourceList{corev1.ResourceCPU: *resource.NewMilliQuantity(100, resource.DecimalSI)}
				if limited {
					c.Resources.Limits = corev1.ResourceList{corev1.ResourceCPU: *resource.NewMilliQuantity(lim, resource.DecimalSI)}
				} else {
					lim = 0
				}
				pod.Spec.Containers = append(pod.Spec.Containers, c)
				pod.Status.ContainerStatuses = append(pod.Status.ContainerStatuses, corev1.ContainerStatus{Name: cname, ContainerID: cid})
				cdir, err := koordletutil.GetContainerCgroupParentDirByID(podDir, cid)
				if err != nil {
					t.Fatal(err)
				}
				p.ctrs = append(p.ctrs, addDir(cdir, p.node))
				p.lims = append(p.lims, lim)
			}
			p.meta = &statesinformer.PodMeta{Pod: pod, CgroupDir: podDir}
			pods = append(pods, p)
		}
		nn := len(dirs)
		podBase := func(p *c12ncPod) int64 {
			var sum int64
			for _, l := range p.lims {
				sum += l
			}
			return c12ncBase(sum)
		}
		// what ratio `ratio` (rule on) asks of every dir the callback owns
		want := func(ratio float64, cur []int64) []int64 {
			w := append([]int64(nil), cur...)
			for _, p := range pods {
				if !p.own {
					continue
				}
				w[p.node] = c12ncScaled(podBase(p), ratio)
				for k, c := range p.ctrs {
					w[c] = c12ncScaled(c12ncBase(p.lims[k]), ratio)
				}
			}
			return w
		}
		// start: kubelet's values, or those of an earlier ratio, or nothing limited yet
		start := make([]int64, nn)
		for _, p := range pods {
			start[p.node] = podBase(p)
			for k, c := range p.ctrs {
				start[c] = c12ncBase(p.lims[k])
			}
		}
		switch r.Intn(4) {
		case 0:
			for _, p := range pods {
				if p.own {
					start[p.node] = -1
					for _, c := range p.ctrs {
						start[c] = -1
					}
				}
			}
		case 1:
			start = want(c12ncRatios[1+r.Intn(len(c12ncRatios)-1)], start)
		}
		tr.vals = append([]int64(nil), start...)
		for i := range dirs {
			if err := os.WriteFile(tr.paths[i], []byte(tr.fileStr(start[i])), 0o644); err != nil {
				t.Fatal(err)
			}
			tr.arm(i)
		}
		pi64 := make([]int64, nn)
		for i, p := range tr.parent {
			pi64[i] = int64(p)
		}
		h.Op("tree 1 %d %d %s %s", vB(v2), nn, vInts(pi64), vInts(start))
		h.Tag(fmt.Sprintf("normcb:v2=%d:systemd=%d", vB(v2), vB(systemd)))
		h.Tag(fmt.Sprintf("normcb:dirs:%d", nn))

		real := &resourceexecutor.ResourceUpdateExecutorImpl{ResourceCache: cache.NewCacheDefault(), Config: resourceexecutor.NewDefaultConfig()}
		stop := make(chan struct{})
		real.Run(stop)
		ex := &c12ncExec{inner: real, t: tr}
		p := newPlugin()
		p.executor = ex
		ratio := -1.0 // newRule(): off

		steps := r.Range(1, 4)
		for s := 0; s < steps; s++ {
			if !r.Chance(1, 6) {
				nr := c12ncRatios[r.Intn(len(c12ncRatios))]
				node := &corev1.Node{ObjectMeta: metav1.ObjectMeta{Name: "n"}}
				if nr > 0 {
					node.Annotations = map[string]string{apiext.AnnotationCPUNormalizationRatio: strconv.FormatFloat(nr, 'f', 2, 64)}
				} else if r.Bool() {
					node.Annotations = map[string]string{}
				}
				if _, err := p.parseRule(node); err != nil {
					t.Fatal(err)
				}
				switch {
				case nr > ratio && nr > 1:
					h.Tag("normcb:ratio-up(shrink)")
				case nr < ratio && ratio > 1:
					h.Tag("normcb:ratio-down(grow)")
				default:
					h.Tag("normcb:ratio-same")
				}
				ratio = nr
			}
			var metas []*statesinformer.PodMeta
			var shown []*c12ncPod
			for _, q := range pods {
				if !r.Chance(1, 10) && !(len(pods) > 1 && r.Chance(1, 6)) {
					metas = append(metas, q.meta)
					shown = append(shown, q)
				}
			}
			expired := r.Chance(1, 4)
			real.Config.ResourceForceUpdateSeconds = 60
			if expired {
				real.Config.ResourceForceUpdateSeconds = -1
			}
			begin := append([]int64(nil), tr.vals...)
			full := want(ratio, begin)
			tgt := append([]int64(nil), begin...)
			var lvPods, lvCtrs []int64
			if ratio != -1 { // rule off: the callback builds no updater
				for _, q := range shown {
					if !q.own {
						continue
					}
					tgt[q.node] = full[q.node]
					lvPods = append(lvPods, int64(q.node), full[q.node], 1)
					for _, c := range q.ctrs {
						tgt[c] = full[c]
						lvCtrs = append(lvCtrs, int64(c), full[c], 1)
					}
				}
			} else {
				h.Tag("normcb:rule-off")
			}
			h.Op("batchk %d 2 %d %d %s", vB(expired), len(lvPods)/3, len(lvCtrs)/3, strings.TrimSpace(vInts(lvPods)+" "+vInts(lvCtrs)))

			tr.writes, tr.bad, tr.garble, tr.multi, tr.nonMerg = tr.writes[:0], false, false, false, 0
			ex.calls = 0
			if h.Guard(func() {
				if err := p.ruleUpdateCb(&statesinformer.CallbackTarget{Pods: metas}); err != nil {
					h.Obs("err")
				}
			}) {
				h.Obs("panic")
			}
			tr.inspect()
			final := make([]int64, nn)
			for i, pth := range tr.paths {
				b, _ := os.ReadFile(pth)
				v, ok := c12ncParse(string(b))
				if !ok {
					v = -3
				}
				final[i] = v
			}
			h.Obs("st %s", vInts(final))

			// float assumption of rule_targets_valid
			{
				var qs []int64
				for _, q := range pods {
					if q.own {
						qs = append(qs, podBase(q))
						for _, l := range q.lims {
							qs = append(qs, c12ncBase(l))
						}
					}
				}
				if ok, why := c12ncScaleOK(ratio, qs); !ok {
					h.Fail("C12:float-assumption", "ScaleOK does not hold: %s", why)
				}
			}
			// ---------------- property oracle ----------------
			changed := 0
			for i := range tgt {
				if tgt[i] != begin[i] {
					changed++
				}
			}
			if tr.nonMerg > 0 {
				h.Tag("normcb:updater-not-mergeable-observed")
			}
			if tr.multi {
				h.Tag("normcb:several-writes-between-two-looks")
			}
			if tr.valid(begin) && tr.valid(tgt) && !tr.garble {
				h.Tag("normcb:oracle:full")
				if changed > 0 {
					h.Nontrivial()
				}
				if tr.bad {
					h.Fail("C12:normcb-invalid-intermediate", "cpunormalization ruleUpdateCb: after some write a container's cfs quota exceeds its pod's (v2 %v, parents %v, start %v, target %v, writes %v)", v2, tr.parent, begin, tgt, tr.writes)
				}
			} else {
				h.Tag("normcb:oracle:final-only")
			}
			for i := range tgt {
				if final[i] != tgt[i] {
					h.Fail("C12:normcb-final-not-target", "dir %d holds %d, target %d (start %v, target %v)", i, final[i], tgt[i], begin, tgt)
					break
				}
			}
			if !v2 {
				cur := append([]int64(nil), begin...)
				for _, w := range tr.writes {
					i, v := int(w[0]), w[1]
					if tgt[i] == begin[i] || cur[i] == v {
						h.Fail("C12:normcb-redundant-write", "dir %d (start %d, target %d) written with %d while holding %d", i, begin[i], tgt[i], v, cur[i])
						break
					}
					cur[i] = v
				}
			}
			if changed > 0 {
				shr, grw := false, false
				for i := range tgt {
					if tgt[i] != begin[i] {
						if c12ncLe(tgt[i], begin[i]) {
							shr = true
						} else {
							grw = true
						}
					}
				}
				h.Tag(fmt.Sprintf("normcb:shrink=%d:grow=%d", vB(shr), vB(grw)))
			} else {
				h.Tag("normcb:no-change")
			}
			h.Tag(fmt.Sprintf("normcb:leveled-calls:%d", ex.calls))
		}
		close(stop)
		h.End()
		_ = os.RemoveAll(root)
	}
	h.Close("1-3 pods (LS / unlabeled / nil labels with cpu limits 5m..4000m, running or pending; bystanders: BE, LSR, cpuset-bound, terminated, without limits) with 1-3 " +
		"containers in a temp cgroup root (cgroup v1/v2, systemd/cgroupfs), start = kubelet values / values of a random ratio / unlimited; 1-4 rounds of ratio changes " +
		"(annotation removed / 0.8 / 1.0 .. 3.0 through parseRule), a random 90% of the pods shown, cache fresh or force-expired, then the real ruleUpdateCb; " +
		"non-trivial = full oracle and >= 1 dir changes; distinct by op lines")
}

// C12 harness `normquota`: the arithmetic behind the targets of the cpu-normalization callback (Model/C12Rule.lean,
// linked into the driver): one line = one LS pod handed to the real AdjustPodCFSQuota / AdjustContainerCFSQuota
// through FromReconciler under a ratio k/100 (or none); observation = the quotas put into the responses (-2 = left nil).
// Oracle = rule_targets_valid's statement on the quotas that are set.
func TestVerifC12NormQuota(t *testing.T) {
	h := vOpen("C12")
	if h == nil {
		t.Skip("VERIF_OUT not set")
	}
	sysutil.SetupCgroupPathFormatter(sysutil.Systemd)
	ratios := []int64{-100, 100, 101, 110, 120, 133, 150, 200, 300, 80, 99, 1000, 117}
	n := h.N(1500, 40000)
	for idx := 0; idx < n; idx++ {
		r := h.Begin(idx)
		if r == nil {
			continue
		}
		lines := r.Range(1, 4)
		for ln := 0; ln < lines; ln++ {
			ratio100 := ratios[r.Intn(len(ratios))]
			if r.Chance(1, 4) {
				ratio100 = int64(r.Range(90, 400))
			}
			p := newPlugin()
			if ratio100 > 0 {
				p.rule.UpdateRule(float64(ratio100) / 100.0)
			} else if r.Bool() {
				p.rule.UpdateRule(-1)
			}
			pod := &corev1.Pod{
				ObjectMeta: metav1.ObjectMeta{Name: "p", Namespace: "ns", UID: "u", Labels: map[string]string{apiext.LabelPodQoS: string(apiext.QoSLS)}},
				Status:     corev1.PodStatus{Phase: corev1.PodRunning},
			}
			nc := r.Range(1, 4)
			var lims []int64
			for ci := 0; ci < nc; ci++ {
				lim := r.Pick(c12ncLimPool)
				switch r.Intn(5) {
				case 0:
					lim = int64(r.Range(1, 64000))
				case 1:
					lim = int64(r.Range(1, 40)) * 100
				case 2:
					lim = 0 // no cpu limit on this container
				}
				cname := fmt.Sprintf("c%d", ci)
				c := corev1.Container{Name: cname}
				c.Resources.Requests = corev1.ResourceList{corev1.ResourceCPU: *resource.NewMilliQuantity(100, resource.DecimalSI)}
				if lim > 0 {
					c.Resources.Limits = corev1.ResourceList{corev1.ResourceCPU: *resource.NewMilliQuantity(lim, resource.DecimalSI)}
				} else if r.Bool() {
					c.Resources.Limits = corev1.ResourceList{corev1.ResourceMemory: *resource.NewQuantity(1<<30, resource.BinarySI)}
				}
				pod.Spec.Containers = append(pod.Spec.Containers, c)
				pod.Status.ContainerStatuses = append(pod.Status.ContainerStatuses, corev1.ContainerStatus{Name: cname, ContainerID: "containerd://k" + cname})
				lims = append(lims, lim)
			}
			meta := &statesinformer.PodMeta{Pod: pod, CgroupDir: "kubepods.slice/kubepods-burstable.slice/kubepods-burstable-podu.slice/"}
			h.Op("nq %d %s", ratio100, vInts(lims))
			out := make([]int64, 0, nc+1)
			get := func(q *int64) int64 {
				if q == nil {
					return -2
				}
				return *q
			}
			if h.Guard(func() {
				podCtx := &protocol.PodContext{}
				podCtx.FromReconciler(meta)
				if err := p.AdjustPodCFSQuota(podCtx); err != nil {
					out = append(out, -3)
				} else {
					out = append(out, get(podCtx.Response.Resources.CFSQuota))
				}
				for _, cs := range pod.Status.ContainerStatuses {
					cctx := &protocol.ContainerContext{}
					cctx.FromReconciler(meta, cs.Name, false)
					if err := p.AdjustContainerCFSQuota(cctx); err != nil {
						out = append(out, -3)
					} else {
						out = append(out, get(cctx.Response.Resources.CFSQuota))
					}
				}
			}) {
				h.Obs("panic")
				continue
			}
			h.Obs("q %s", vInts(out))
			h.Nontrivial()
			mixed := false
			for _, l := range lims {
				if l == 0 {
					mixed = true
				}
			}
			h.Tag(fmt.Sprintf("normquota:on=%d:scaled=%d:some-container-unlimited=%d", vB(ratio100 > 0), vB(ratio100 > 100), vB(mixed)))
			for i := 1; i < len(out); i++ {
				if out[0] == -3 || out[i] == -3 || (out[0] >= 0 && out[i] >= 0 && out[i] > out[0]) {
					h.Fail("C12:normquota-target-invalid", "ratio %d/100 limits %v: quotas %v - container %d is not within its pod", ratio100, lims, out, i-1)
					break
				}
			}
		}
		h.End()
	}
	h.Close("1-4 LS pods per case, 1-4 containers with cpu limits 1m..64000m or none, ratio none / 0.8 .. 10.0 in hundredths; every case non-trivial; distinct by op lines")
}
