//go:build verif

package cpuevict

import (
	"fmt"
	"sort"
	"strings"
	"testing"
	"time"

	"github.com/koordinator-sh/koordinator/pkg/koordlet/metriccache"
	"github.com/koordinator-sh/koordinator/pkg/koordlet/qosmanager/helpers"
)

// C11 — the metric glue of the end-to-end harnesses (identical in cpuevict).  A pod's usage is described by its
// SERIES in the metric cache (points = (age before the case's logical "now" in ms, int64(value*1000))), not by
// a ready-made "has a metric" bit: Model/C11Metric.lean derives hasMetric / used from the series the way
// helpers.CollectPodMetricLast does (no point inside the window of 2*collectInterval ⇒ ERROR ⇒ the priority
// paths skip the pod).  Two fixtures carry a series:
//   * gomock (the packages' own test fixture): query error | EMPTY result (Count()==0, Value ⇒ "metric input
//     is empty") | one point;
//   * the REAL metric cache (metriccache.NewMetricCache, TSDB in a temp dir, real AggregateResult) behind a pinned
//     clock: every Querier(start, end) of the code under test is answered for [now-(end-start), now], so the
//     window WIDTH is the code's, the window END is the case's logical now (no wall-clock flakiness).

// captured at package initialisation, before any test replaces the global by a mock
var c11RealResultFactory = metriccache.DefaultAggregateResultFactory

type c11Sample struct{ age, milli int64 }

type c11PinCache struct {
	metriccache.MetricCache
	base   time.Time
	widths map[int64]bool // window widths (ms) the code under test asked for
}

func (c *c11PinCache) Querier(start, end time.Time) (metriccache.Querier, error) {
	w := end.Sub(start)
	c.widths[w.Milliseconds()] = true
	return c.MetricCache.Querier(c.base.Add(-w), c.base)
}

// c11GenSeries decides how the pod's usage is (not) present in the metric cache.  On entry p.hasMetric / p.milli
// are the generator's intent; on return they are the EFFECTIVE values (what CollectPodMetricLast has to report:
// hasMetric=false ⇔ error), p.series / p.qerr describe the fixture.
func c11GenSeries(r *vRand, p *c11Pod, real bool, window int64) {
	p.qerr, p.series = false, nil
	other := func() int64 { // a value different from p.milli
		for {
			if v := c11MilliMetric(r); v != p.milli {
				return v
			}
		}
	}
	freshAge := func() int64 {
		switch r.Intn(4) {
		case 0:
			return 0
		case 1:
			return window // boundary: still inside
		}
		return int64(r.Range(1, int(window)-1))
	}
	staleAge := func() int64 {
		if r.Chance(1, 3) {
			return window + 1 // boundary: just outside
		}
		return window + int64(r.Range(2, 200000))
	}
	if !real {
		switch {
		case p.hasMetric:
			p.mstate = "single"
			p.series = []c11Sample{{0, p.milli}}
		case r.Chance(1, 2):
			p.mstate = "qerr"
			p.qerr = true
		default:
			p.mstate = "empty"
		}
		return
	}
	ages := map[int64]bool{}
	add := func(age, milli int64) {
		for ages[age] {
			if age > window {
				age++
			} else if age > 0 {
				age--
			} else {
				age++
			}
		}
		ages[age] = true
		p.series = append(p.series, c11Sample{age, milli})
	}
	if p.hasMetric {
		fa := freshAge()
		switch r.Intn(5) {
		case 0, 1:
			p.mstate = "single"
		case 2:
			p.mstate = "multi"
			for i, n := 0, r.Range(1, 2); i < n; i++ {
				add(fa+int64(r.Range(1, 900)), other()) // older than the last one; may fall outside the window
			}
		case 3:
			p.mstate = "stale+fresh"
			for i, n := 0, r.Range(1, 2); i < n; i++ {
				add(staleAge(), other())
			}
		default:
			p.mstate = "fresh+future"
			add(-int64(r.Range(1, 3000)), other())
		}
		add(fa, p.milli)
	} else {
		switch r.Intn(4) {
		case 0, 1:
			p.mstate = "empty"
		case 2:
			p.mstate = "stale"
			for i, n := 0, r.Range(1, 2); i < n; i++ {
				add(staleAge(), other())
			}
		default:
			p.mstate = "future"
			add(-int64(r.Range(1, 3000)), other())
		}
	}
	sort.Slice(p.series, func(i, j int) bool { return p.series[i].age > p.series[j].age }) // storage (time) order
	// the effective metric by the property's own reading: the latest point inside [now-window, now]
	p.hasMetric = false
	best := int64(-1)
	for _, s := range p.series {
		if s.age >= 0 && s.age <= window && (best < 0 || s.age < best) {
			best, p.hasMetric, p.milli = s.age, true, s.milli
		}
	}
}

func c11SeriesOp(p *c11Pod, window int64) string {
	var sb strings.Builder
	fmt.Fprintf(&sb, "metric %d %d %d %d", p.id, vB(p.qerr), window, len(p.series))
	for _, s := range p.series {
		fmt.Fprintf(&sb, " %d %d", s.age, s.milli)
	}
	return sb.String()
}

type c11ExtraSeries struct {
	res    metriccache.MetricResource
	props  map[metriccache.MetricProperty]string
	ages   []int64 // ms before the logical now
	vals   []float64
}

// c11RealCache builds a real metric cache holding the pods' series (and the extra node-level series).
func c11RealCache(t *testing.T, pods []*c11Pod, extra []c11ExtraSeries) *c11PinCache {
	cfg := metriccache.NewDefaultConfig()
	cfg.TSDBPath = t.TempDir()
	cfg.TSDBEnablePromMetrics = false
	mc, err := metriccache.NewMetricCache(cfg)
	if err != nil {
		t.Fatalf("C11 harness: metric cache: %v", err)
	}
	base := time.UnixMilli(time.Now().UnixMilli())
	type pt struct {
		at time.Time
		s  metriccache.MetricSample
	}
	var all []pt
	for _, p := range pods {
		for _, s := range p.series {
			at := base.Add(-time.Duration(s.age) * time.Millisecond)
			ms, err := c11PodMetric.GenerateSample(metriccache.MetricPropertiesFunc.Pod(fmt.Sprintf("u%d", p.id)), at, c11MetricValue(s.milli))
			if err != nil {
				t.Fatalf("C11 harness: sample: %v", err)
			}
			all = append(all, pt{at, ms})
		}
	}
	for _, x := range extra {
		for i, age := range x.ages {
			at := base.Add(-time.Duration(age) * time.Millisecond)
			ms, err := x.res.GenerateSample(x.props, at, x.vals[i])
			if err != nil {
				t.Fatalf("C11 harness: sample: %v", err)
			}
			all = append(all, pt{at, ms})
		}
	}
	sort.SliceStable(all, func(i, j int) bool { return all[i].at.Before(all[j].at) })
	if len(all) > 0 {
		ap := mc.Appender()
		for _, x := range all {
			if err := ap.Append([]metriccache.MetricSample{x.s}); err != nil {
				t.Fatalf("C11 harness: append: %v", err)
			}
		}
		if err := ap.Commit(); err != nil {
			t.Fatalf("C11 harness: commit: %v", err)
		}
	}
	return &c11PinCache{MetricCache: mc, base: base, widths: map[int64]bool{}}
}

// c11ObserveLast calls helpers.CollectPodMetricLast itself for every pod (the contract the list builders rely on).
func c11ObserveLast(h *vHarness, mc metriccache.MetricCache, interval time.Duration, pods []*c11Pod) {
	for _, p := range pods {
		meta, err := c11PodMetric.BuildQueryMeta(metriccache.MetricPropertiesFunc.Pod(fmt.Sprintf("u%d", p.id)))
		if err != nil {
			h.Obs("last %d badmeta", p.id)
			continue
		}
		var v float64
		var cerr error
		if h.Guard(func() { v, cerr = helpers.CollectPodMetricLast(mc, meta, interval) }) {
			h.Obs("last %d panic", p.id)
			h.Fail("C11:panic", "CollectPodMetricLast panicked")
			continue
		}
		if cerr != nil {
			h.Obs("last %d none", p.id)
		} else {
			h.Obs("last %d %d", p.id, int64(v*1000))
		}
		// oracle (the helper's contract as the eviction code relies on it): no point of the pod inside the query
		// window ⇒ an error, never a value; a point inside ⇒ the value of the latest one
		if !p.hasMetric && cerr == nil {
			h.Fail("C11:no-sample-not-an-error", "CollectPodMetricLast reports usage %v (no error) for pod %d which has no usage sample in the query window (%s)", v, p.id, p.mstate)
		}
		if p.hasMetric && (cerr != nil || int64(v*1000) != p.milli) {
			h.Fail("C11:metric-last-wrong", "CollectPodMetricLast reports (%v, %v) for pod %d whose latest sample in the window is %d/1000 (%s)", v, cerr, p.id, p.milli, p.mstate)
		}
	}
}
