//go:build verif

package cpuevict

import (
	"fmt"
	"math/big"
	"sort"
	"strings"
	"testing"
	"time"

	"go.uber.org/mock/gomock"
	corev1 "k8s.io/api/core/v1"
	policyv1 "k8s.io/api/policy/v1"
	apierrors "k8s.io/apimachinery/pkg/api/errors"
	"k8s.io/apimachinery/pkg/api/resource"
	metav1 "k8s.io/apimachinery/pkg/apis/meta/v1"
	"k8s.io/apimachinery/pkg/runtime"
	clientsetfake "k8s.io/client-go/kubernetes/fake"
	clienttesting "k8s.io/client-go/testing"
	"k8s.io/client-go/tools/record"
	"k8s.io/utils/ptr"

	apiext "github.com/koordinator-sh/koordinator/apis/extension"
	slov1alpha1 "github.com/koordinator-sh/koordinator/apis/slo/v1alpha1"
	"github.com/koordinator-sh/koordinator/pkg/features"
	"github.com/koordinator-sh/koordinator/pkg/koordlet/metriccache"
	mock_metriccache "github.com/koordinator-sh/koordinator/pkg/koordlet/metriccache/mockmetriccache"
	maframework "github.com/koordinator-sh/koordinator/pkg/koordlet/metricsadvisor/framework"
	"github.com/koordinator-sh/koordinator/pkg/koordlet/qosmanager/framework"
	qosmanagerUtil "github.com/koordinator-sh/koordinator/pkg/koordlet/qosmanager/plugins/util"
	"github.com/koordinator-sh/koordinator/pkg/koordlet/statesinformer"
	mock_statesinformer "github.com/koordinator-sh/koordinator/pkg/koordlet/statesinformer/mockstatesinformer"
	"github.com/koordinator-sh/koordinator/pkg/koordlet/util/testutil"
	utilfeature "github.com/koordinator-sh/koordinator/pkg/util/feature"
)

// C11 harness `passcpu` (the cpu twin of memoryevict's `passmem`): SEVERAL cpuEvict() passes of one evictor against the REAL executor (Evictor with its TTL
// record + DefaultEvictionExecutor) and a fake API server: a successful eviction call puts a deletionTimestamp on the
// pod OBJECT; the pod then stays Running, keeps its usage and stays in the statesinformer's pod list (which hands out
// the UPDATED object) for 1-3 more passes before it disappears.  The pressure (node usage metric) stays the same while
// the victims are terminating.  Observed per pass: the candidate lists buildEvictTask publishes, the Evict calls, the
// number of API calls.  Oracle over the WHOLE history: a pass that sees the same pods / usages / pressure as the pass
// before it (only deletionTimestamps were added), after a pass without a failed call, evicts nobody — the earlier
// victims are still terminating and are credited; and at every Evict call the real usage of the victims of this pass
// plus that of the still-terminating earlier victims that stand before the pod in the published order is below the target.

type c11pAPI struct {
	script []bool
	n      int // calls of the current pass
	okName []string
}

func (a *c11pAPI) react(action clienttesting.Action) (bool, runtime.Object, error) {
	if action.GetSubresource() != "eviction" {
		return false, nil, nil
	}
	ca, ok := action.(clienttesting.CreateAction)
	if !ok {
		return false, nil, nil
	}
	ev, ok := ca.GetObject().(*policyv1.Eviction)
	if !ok {
		return false, nil, nil
	}
	res := true
	if a.n < len(a.script) {
		res = a.script[a.n]
	}
	a.n++
	if res {
		a.okName = append(a.okName, ev.Name)
		return true, nil, nil
	}
	return true, nil, apierrors.NewTooManyRequests("Cannot evict pod as it would violate the pod's disruption budget.", 1)
}

// pass-through recorder in front of the real executor
type c11pExec struct {
	inner qosmanagerUtil.EvictionExecutor
	calls []c11eCall
	byUID map[string]*c11Pod
	bad   bool
}

func (x *c11pExec) Evict(pod *corev1.Pod, node *corev1.Node, releaseReason string, message string) bool {
	feat := -1
	for i, f := range c11eFeatures {
		if strings.HasPrefix(message, qosmanagerUtil.EvictReasonPrefix+string(f)+",") {
			feat = i
		}
	}
	p := x.byUID[string(pod.UID)]
	if feat < 0 || p == nil {
		x.bad = true
		return false
	}
	ok := x.inner.Evict(pod, node, releaseReason, message)
	x.calls = append(x.calls, c11eCall{feat: feat, pod: p.id, ok: ok})
	return ok
}
func (x *c11pExec) IsPodEvicted(pod *corev1.Pod) bool { return x.inner.IsPodEvicted(pod) }

const c11pTTLSeconds = 120 // cache.defaultExpiration (tie_cache_ttl)

func TestVerifC11Passes(t *testing.T) {
	h := vOpen("C11")
	if h == nil {
		t.Skip("VERIF_OUT not set")
	}
	oldFactory := metriccache.DefaultAggregateResultFactory
	defer func() { metriccache.DefaultAggregateResultFactory = oldFactory }()
	resIdx := map[corev1.ResourceName]int{corev1.ResourceCPU: 0, apiext.BatchCPU: 2, apiext.MidCPU: 4}
	n := h.N(1200, 20000)
	for idx := 0; idx < n; idx++ {
		r := h.Begin(idx)
		if r == nil {
			continue
		}
		caseStart := time.Now()
		np := r.Range(2, 7)
		names := r.Perm(np)
		pods := make([]*c11Pod, np)
		allNil := r.Chance(1, 10)
		for i := range pods {
			p := c11GenPod(r, i, names[i])
			if r.Chance(3, 4) { // steer towards pods that can be victims
				p.evictLbl, p.hasMetric = 1, true
				if p.phase > 1 {
					p.phase = 1
				}
				if p.milli == 0 || r.Chance(1, 2) {
					p.milli = int64(r.Range(1, 40)) * 125 // mostly distinct usages: the published order is strict
				}
			}
			c11ePolicy(r, p)
			if allNil {
				p.hasSpec, p.spec = false, 0
			} else if !p.hasSpec {
				p.hasSpec, p.spec = true, 0
			}
			p.batchCPU = p.reqBatch
			pods[i] = p
		}
		collectInterval := maframework.NewDefaultConfig().CollectResUsedInterval
		window := int64(2 * collectInterval / time.Millisecond)
		for _, p := range pods {
			if p.hasMetric && r.Chance(1, 8) {
				p.hasMetric = false
			}
			c11GenSeries(r, p, false, window)
		}
		byUID := map[string]*c11Pod{}
		byName := map[string]*c11Pod{}
		obj := make([]*corev1.Pod, np) // the pod objects the "informer" currently holds
		present := make([]bool, np)
		term := make([]bool, np)
		linger := make([]int, np)
		for i, p := range pods {
			obj[i] = p.build()
			byUID[fmt.Sprintf("u%d", p.id)] = p
			byName[obj[i].Name] = p
			present[i] = true
			if r.Chance(1, 12) { // deleted by somebody else before the first pass: terminating, not in the Evictor's record
				term[i] = true
				linger[i] = r.Range(1, 3)
				obj[i].DeletionTimestamp = &metav1.Time{Time: caseStart.Add(-time.Second)}
			}
		}

		// ---- node, strategy, gates (mostly valid and under pressure; the config variants are the business of e2emem)
		capacity := int64(r.Range(2, 40)) * 500 // milli
		if r.Chance(1, 40) {
			capacity = 0
		}
		var used *int64 // int64(node metric*1000), a multiple of 125 so that the float round trip is exact
		if !r.Chance(1, 25) {
			used = ptr.To(capacity * int64(r.Range(55, 100)) / 100 / 125 * 125)
		}
		optI64 := func(lo, hi int, nilOneIn int) *int64 {
			if r.Chance(1, nilOneIn) {
				return nil
			}
			return ptr.To(int64(r.Range(lo, hi)))
		}
		thr := optI64(40, 80, 30)
		var lower *int64
		if thr != nil && r.Chance(1, 2) {
			lower = ptr.To(*thr - int64(r.Range(1, 30)))
			if r.Chance(1, 20) {
				lower = ptr.To(*thr + int64(r.Intn(2)))
			}
		}
		prioPool := []int32{100, 3000, 5500, 5999, 7999, 9999}
		var prioThr, aPrioThr *int32
		if !r.Chance(1, 20) {
			prioThr = ptr.To(prioPool[r.Intn(len(prioPool))])
		}
		if !r.Chance(1, 12) {
			aPrioThr = ptr.To(prioPool[r.Intn(len(prioPool))])
		}
		aThr := optI64(0, 100, 12)
		var aLower *int64
		if aThr != nil && !r.Chance(1, 12) {
			aLower = ptr.To(*aThr - int64(r.Range(1, 40)))
		}
		optAlloc := func() *int64 {
			switch r.Intn(5) {
			case 0:
				return nil
			case 1:
				return ptr.To(int64(0))
			}
			return ptr.To(int64(r.Range(1, 30)) * 100)
		}
		allocMem, allocBatch, allocMid := optAlloc(), optAlloc(), optAlloc() // allocMem: native cpu (milli)
		// BECPUEvict by satisfaction
		lowP, upP := ptr.To(int64(r.Range(20, 60))), ptr.To(int64(0))
		*upP = *lowP + int64(r.Range(0, 35))
		if r.Chance(1, 15) {
			lowP = nil
		}
		var evWindow *int64
		if r.Chance(1, 2) {
			evWindow = ptr.To(int64(r.Range(0, 30)))
		}
		byAlloc := r.Chance(1, 3)
		var usageThr *int64
		if r.Chance(1, 2) {
			usageThr = ptr.To(int64(r.Range(0, 100)))
		}
		type beMetric struct {
			err           bool
			avg, cur, cnt int64
		}
		var bem [3]beMetric // usage, request, real limit (milli)
		for i := range bem {
			bem[i].err = r.Chance(1, 30)
			bem[i].cnt = int64(r.Range(5, 30))
		}
		bem[1].avg = int64(r.Range(0, 40)) * 250 // request
		bem[2].avg = int64(r.Range(0, 24)) * 250 // real limit
		bem[0].avg = bem[2].avg * int64(r.Range(50, 100)) / 100
		if r.Chance(3, 5) {
			// steer towards a FIRING satisfaction target: limit well below the request, usage close to the limit, enough points
			bem[1].avg = int64(r.Range(8, 40)) * 250
			bem[2].avg = bem[1].avg * int64(r.Range(5, 45)) / 100
			if bem[2].avg < 250 {
				bem[2].avg = 250
			}
			bem[0].avg = bem[2].avg * int64(r.Range(85, 100)) / 100
			for i := range bem {
				bem[i].err = false
				if bem[i].cnt < 10 {
					bem[i].cnt = int64(r.Range(10, 30))
				}
			}
		}
		for i := range bem {
			bem[i].cur = bem[i].avg
			if r.Chance(1, 4) {
				bem[i].cur = bem[i].avg * int64(r.Range(50, 150)) / 100
			}
		}
		gate := [3]bool{r.Chance(5, 6), r.Chance(1, 2), r.Chance(5, 6)}
		strategy := &slov1alpha1.ResourceThresholdStrategy{Enable: ptr.To(!r.Chance(1, 40)), CPUEvictThresholdPercent: thr, CPUEvictLowerPercent: lower,
			EvictEnabledPriorityThreshold: prioThr, CPUAllocatableEvictThresholdPercent: aThr,
			CPUAllocatableEvictLowerPercent: aLower, AllocatableEvictPriorityThreshold: aPrioThr,
			CPUEvictBESatisfactionLowerPercent: lowP, CPUEvictBESatisfactionUpperPercent: upP, CPUEvictTimeWindowSeconds: evWindow,
			CPUEvictBEUsageThresholdPercent: usageThr}
		if byAlloc {
			strategy.CPUEvictPolicy = slov1alpha1.EvictByAllocatablePolicy
		}
		nodeSLO := &slov1alpha1.NodeSLO{}
		nodeSLO.Spec.ResourceUsedThresholdWithBE = strategy
		on := [3]bool{}
		for f := range on {
			on[f] = gate[f] && *strategy.Enable
		}
		node := testutil.MockTestNode("1", "1G")
		node.Status.Capacity[corev1.ResourceCPU] = *resource.NewMilliQuantity(capacity, resource.DecimalSI)
		node.Status.Allocatable = corev1.ResourceList{}
		for _, x := range []struct {
			n corev1.ResourceName
			v *int64
		}{{corev1.ResourceCPU, allocMem}, {apiext.BatchCPU, allocBatch}, {apiext.MidCPU, allocMid}} {
			if x.v != nil {
				node.Status.Allocatable[x.n] = c11ReqQty(x.n, *x.v)
			}
		}

		// ---- fixtures: statesinformer handing out the CURRENT pod objects, gomock metric cache, real executor + fake API
		ctl := gomock.NewController(t)
		si := mock_statesinformer.NewMockStatesInformer(ctl)
		curPods := func() []*c11Pod {
			var l []*c11Pod
			for i, p := range pods {
				if present[i] {
					l = append(l, p)
				}
			}
			return l
		}
		si.EXPECT().GetAllPods().DoAndReturn(func() []*statesinformer.PodMeta {
			var l []*corev1.Pod
			for i := range pods {
				if present[i] {
					l = append(l, obj[i])
				}
			}
			return testutil.GetPodMetas(l)
		}).AnyTimes()
		si.EXPECT().GetNode().Return(node).AnyTimes()
		si.EXPECT().GetNodeSLO().Return(nodeSLO).AnyTimes()
		mc := mock_metriccache.NewMockMetricCache(ctl)
		rf := mock_metriccache.NewMockAggregateResultFactory(ctl)
		metriccache.DefaultAggregateResultFactory = rf
		q := mock_metriccache.NewMockQuerier(ctl)
		mc.EXPECT().Querier(gomock.Any(), gomock.Any()).Return(q, nil).AnyTimes()
		q.EXPECT().Close().AnyTimes()
		for _, p := range pods {
			res := mock_metriccache.NewMockAggregateResult(ctl)
			if !p.qerr && len(p.series) == 0 {
				res.EXPECT().Value(gomock.Any()).Return(float64(0), fmt.Errorf("metric input is empty")).AnyTimes()
				res.EXPECT().Count().Return(0).AnyTimes()
			} else {
				res.EXPECT().Value(gomock.Any()).Return(c11MetricValue(p.milli), nil).AnyTimes()
				res.EXPECT().Count().Return(1).AnyTimes()
			}
			meta, err := c11PodMetric.BuildQueryMeta(metriccache.MetricPropertiesFunc.Pod(fmt.Sprintf("u%d", p.id)))
			if err != nil {
				t.Fatal(err)
			}
			rf.EXPECT().New(meta).Return(res).AnyTimes()
			if !p.qerr {
				q.EXPECT().QueryAndClose(meta, gomock.Any(), gomock.Any()).SetArg(2, *res).Return(nil).AnyTimes()
			} else {
				q.EXPECT().QueryAndClose(meta, gomock.Any(), gomock.Any()).Return(fmt.Errorf("no metric")).AnyTimes()
			}
		}
		nres := mock_metriccache.NewMockAggregateResult(ctl)
		nmeta, _ := c11NodeMetric.BuildQueryMeta(nil)
		rf.EXPECT().New(nmeta).Return(nres).AnyTimes()
		nres.EXPECT().Count().Return(1).AnyTimes()
		if used != nil {
			nres.EXPECT().Value(gomock.Any()).DoAndReturn(func(metriccache.AggregationType) (float64, error) { return c11NodeMetricValue(*used), nil }).AnyTimes()
			q.EXPECT().QueryAndClose(nmeta, gomock.Any(), gomock.Any()).SetArg(2, *nres).Return(nil).AnyTimes()
		} else {
			q.EXPECT().QueryAndClose(nmeta, gomock.Any(), gomock.Any()).Return(fmt.Errorf("no node metric")).AnyTimes()
		}
		// node BE metrics of the satisfaction target
		for i, alloc := range []metriccache.MetricPropertyValue{metriccache.BEResourceAllocationUsage, metriccache.BEResourceAllocationRequest, metriccache.BEResourceAllocationRealLimit} {
			props := metriccache.MetricPropertiesFunc.NodeBE(string(metriccache.BEResourceCPU), string(alloc))
			meta, err := metriccache.NodeBEMetric.BuildQueryMeta(props)
			if err != nil {
				t.Fatal(err)
			}
			res := mock_metriccache.NewMockAggregateResult(ctl)
			res.EXPECT().Value(metriccache.AggregationTypeAVG).Return(float64(bem[i].avg), nil).AnyTimes()
			res.EXPECT().Value(metriccache.AggregationTypeLast).Return(float64(bem[i].cur), nil).AnyTimes()
			res.EXPECT().Count().Return(int(bem[i].cnt)).AnyTimes()
			rf.EXPECT().New(meta).Return(res).AnyTimes()
			if bem[i].err {
				q.EXPECT().Query(meta, gomock.Any(), gomock.Any()).Return(fmt.Errorf("no BE metric")).AnyTimes()
			} else {
				q.EXPECT().Query(meta, gomock.Any(), gomock.Any()).SetArg(2, *res).Return(nil).AnyTimes()
			}
		}
		var restore []func()
		for f, ft := range c11eFeatures {
			restore = append(restore, utilfeature.SetFeatureGateDuringTest(t, features.DefaultMutableKoordletFeatureGate, ft, gate[f]))
		}
		onlyAPI, started := !r.Chance(1, 10), !r.Chance(1, 12)
		api := &c11pAPI{}
		client := clientsetfake.NewSimpleClientset()
		client.PrependReactor("create", "pods", api.react)
		evictor := qosmanagerUtil.NewEvictor(client, &record.FakeRecorder{}, policyv1.SchemeGroupVersion.Version)
		stop := make(chan struct{})
		if started {
			if err := evictor.Start(stop); err != nil {
				t.Fatal(err)
			}
		}
		inner := qosmanagerUtil.InitializeEvictionExecutor(evictor, onlyAPI)
		if _, isDefault := inner.(*qosmanagerUtil.DefaultEvictionExecutor); !isDefault {
			t.Fatalf("a custom eviction executor initializer is installed")
		}
		opt := &framework.Options{StatesInformer: si, MetricCache: mc, Config: framework.NewDefaultConfig(), MetricAdvisorConfig: maframework.NewDefaultConfig()}
		ev := New(opt).(*cpuEvictor)
		ex := &c11pExec{inner: inner, byUID: byUID}
		ev.evictExecutor = ex
		h.Op("xcfg %d %d %d", vB(onlyAPI), vB(started), c11pTTLSeconds)
		h.Tag(fmt.Sprintf("mode:api=%v,started=%v", onlyAPI, started))

		// ================= oracle helpers (from the generated attributes only) =================
		realUse := func(p *c11Pod) int64 {
			if !p.hasMetric {
				return 0
			}
			return p.milli
		}
		eligible := func(p *c11Pod, f int) bool {
			if !c11ePolicyOK(p, f) {
				return false
			}
			switch f {
			case 0:
				return p.qos == 1
			case 1:
				return p.evictLbl == 1 && aPrioThr != nil && (p.prioAmbiguous() || (p.effPrio() <= *aPrioThr && p.effPrio() <= apiext.PriorityMidValueMax))
			default:
				return p.evictLbl == 1 && prioThr != nil && (p.prioAmbiguous() || p.effPrio() <= *prioThr)
			}
		}
		// does v stand STRICTLY before p in the published order of the usage-based feature CPUEvict (2)?  (BECPUEvict and
		// CPUAllocatableEvict release REQUESTS; for them the history clause is the repeat-pass one.)
		before := func(f int, v, p *c11Pod) bool {
			if f != 2 || v.prioAmbiguous() || p.prioAmbiguous() || !v.hasMetric || v.phase > 1 {
				return false
			}
			key := func(x *c11Pod) []int64 { return []int64{int64(x.evictPrio()), int64(x.effPrio()), x.labelPrio(), -x.milli} }
			return c11LexLess(key(v), key(p)) < 0
		}
		succ := map[int]bool{} // an eviction API call for the pod succeeded in an EARLIER pass and the Evictor recorded it
		prevFailed := false    // the previous pass had a failed Evict call
		sameInputs := false    // this pass sees the pods / usages / pressure of the previous pass (deletionTimestamps aside)
		totalCalls := 0
		repeatPasses, creditedPasses := 0, 0

		nPass := r.Range(2, 4)
		for ps := 0; ps < nPass; ps++ {
			cur := curPods()
			// ---- ops of the pass
			for _, p := range cur {
				numTok := func(kind int, n *big.Int) string {
					if kind == 1 {
						return "1 " + n.String()
					}
					return fmt.Sprintf("%d 0", kind)
				}
				kube := p.kube
				if kube < 0 {
					kube = 1
				}
				el := p.evictLbl
				if el > 1 {
					el = 2
				}
				h.Op("rawpod %d %d %d %d %d %d %d %d %d %s %s %d %d %d %d %d %d %d %d %s", p.id, p.name, p.qos, kube, p.phase,
					vB(p.hasSpec), p.spec, p.clsLabel, el, numTok(p.epKind, p.epNum), numTok(p.lpKind, p.lpNum), p.polTop,
					0, 0, p.reqNative, p.reqMid, p.reqBatch, p.batchCPU, len(p.polElems), vIntsI(p.polElems))
				h.Op("%s", c11CtrsOp(p))
			}
			for _, p := range cur {
				h.Op("%s", c11SeriesOp(p, window))
			}
			c11ObserveLast(h, mc, collectInterval, cur)
			var termL []int64
			for _, p := range cur {
				if term[p.id] {
					termL = append(termL, int64(p.id))
				}
			}
			h.Op("term %d %s", len(termL), vInts(termL))
			script := make([]bool, 3*np)
			allOK := r.Chance(2, 3)
			for i := range script {
				script[i] = allOK || r.Chance(3, 4)
			}
			sc := make([]int64, len(script))
			for i, b := range script {
				sc[i] = int64(vB(b))
			}
			h.Op("script %d %s", len(sc), vInts(sc))
			p32 := func(p *int32) *int64 {
				if p == nil {
					return nil
				}
				return ptr.To(int64(*p))
			}
			var bemTok []int64
			for _, m := range bem {
				bemTok = append(bemTok, int64(vB(m.err)), m.avg, m.cur, m.cnt)
			}
			win := int64(1) // metricCollectInterval = 1 s
			if evWindow != nil && *evWindow > win {
				win = *evWindow
			}
			h.Op("passcpu %d %d %d %d %s %s %s %s %s %s %s %s %d %s %s %s %s %d %d %s %s", ps, vB(on[0]), vB(on[1]), vB(on[2]), c11eOpt(lowP), c11eOpt(upP),
				c11eOpt(thr), c11eOpt(lower), c11eOpt(p32(prioThr)), c11eOpt(aThr), c11eOpt(aLower), c11eOpt(p32(aPrioThr)), capacity, c11eOpt(used),
				c11eOpt(allocMem), c11eOpt(allocBatch), c11eOpt(allocMid), win, vB(byAlloc), c11eOpt(usageThr), vInts(bemTok))

			// ---- what buildEvictTask publishes per feature in this pass
			panicked := false
			taskBuilt := [3]bool{}
			listed := map[int]bool{}
			var taskObs []string
			for f, ft := range c11eFeatures {
				if capacity <= 0 {
					break
				}
				var task *qosmanagerUtil.EvictTaskInfo
				if h.Guard(func() { task, _ = ev.buildEvictTask(ft, nodeSLO, node) }) {
					taskObs = append(taskObs, fmt.Sprintf("task %d panic", f))
					h.Fail("C11:panic", "buildEvictTask(%s) panicked", ft)
					panicked = true
					continue
				}
				if task == nil {
					taskObs = append(taskObs, fmt.Sprintf("task %d none", f))
					continue
				}
				taskBuilt[f] = true
				type kv struct {
					r int
					v int64
				}
				var to []kv
				for rn, qv := range task.ToReleaseResource {
					v := qv.Value()
					if rn == corev1.ResourceCPU {
						v = qv.MilliValue()
					}
					to = append(to, kv{resIdx[rn], v})
				}
				sort.Slice(to, func(i, j int) bool { return to[i].r < to[j].r })
				var sb strings.Builder
				fmt.Fprintf(&sb, "task %d %d", f, len(to))
				for _, x := range to {
					fmt.Fprintf(&sb, " %d %d", x.r, x.v)
				}
				fmt.Fprintf(&sb, " %d", len(task.SortedEvictPods))
				for _, info := range task.SortedEvictPods {
					p := byUID[string(info.Pod.UID)]
					fmt.Fprintf(&sb, " %d", p.id)
					listed[p.id] = true
				}
				taskObs = append(taskObs, sb.String())
			}
			tl := "term-listed"
			for _, p := range cur {
				if term[p.id] && listed[p.id] {
					tl += fmt.Sprintf(" %d", p.id)
					h.Tag("terminating-pod-listed")
				}
			}
			h.Obs("%s", tl)
			for _, o := range taskObs {
				h.Obs("%s", o)
			}
			// ---- the pass
			ev.lastEvictTime = time.Now().Add(-time.Hour) // past the cooling interval
			before0 := ev.lastEvictTime
			ex.calls = nil
			api.script, api.n, api.okName = script, 0, nil
			if h.Guard(func() { ev.cpuEvict() }) {
				h.Obs("panic")
				h.Fail("C11:panic", "cpuEvict panicked")
				panicked = true
			}
			ranTasks := capacity > 0 && ((on[0] && taskBuilt[0]) || (on[1] && taskBuilt[1]) || (on[2] && taskBuilt[2]))
			if !panicked {
				if !ranTasks && len(ex.calls) == 0 {
					h.Obs("skip")
				} else {
					for _, c := range ex.calls {
						h.Obs("evict %d %d %d", c.feat, c.pod, vB(c.ok))
					}
					h.Obs("newly %d", vB(ev.lastEvictTime != before0))
					h.Obs("api %d", api.n)
				}
			}
			if ex.bad {
				h.Fail("C11:harness-reason", "could not attribute an Evict call to a feature / pod")
			}
			totalCalls += len(ex.calls)

			// ================= property oracle of the pass, over the history so far =================
			usageTarget := int64(-1)
			if capacity > 0 && used != nil && thr != nil && *thr >= 0 && prioThr != nil {
				lo := *thr - c11Buffer
				if lower != nil {
					lo = *lower
				}
				if pct := *used * 100 / capacity; lo < *thr && pct >= *thr {
					usageTarget = capacity * (pct - lo) / 100
				}
			}
			var stillTerm []int
			for _, p := range cur {
				if succ[p.id] {
					stillTerm = append(stillTerm, p.id)
				}
			}
			repeat := ps > 0 && sameInputs && !prevFailed && onlyAPI && started
			if repeat {
				repeatPasses++
				if len(stillTerm) > 0 {
					creditedPasses++
				}
			}
			okPods := map[int]bool{}
			var okReal int64
			failedNow := false
			for _, c := range ex.calls {
				p := pods[c.pod]
				if !on[c.feat] {
					h.Fail("C11:feature-off", "pass %d: pod %d evicted by feature %s which is off", ps, p.id, c11eFeatures[c.feat])
				}
				if !eligible(p, c.feat) {
					h.Fail("C11:ineligible-victim", "pass %d: pod %d (qos %d prio %d evictLbl %d policy %d/%v) evicted by %s", ps, p.id, p.qos, p.effPrio(), p.evictLbl, p.polTop, p.polElems, c11eFeatures[c.feat])
				}
				if okPods[p.id] {
					h.Fail("C11:double-evict", "pass %d: pod %d evicted again", ps, p.id)
				}
				if succ[p.id] {
					h.Fail("C11:evicted-twice-across-rounds", "pass %d: pod %d is handed to Evict again although its eviction succeeded in an earlier pass (still terminating, within the TTL)", ps, p.id)
				}
				if repeat {
					// the pass before saw the same pods, usages and pressure and none of its calls failed: whatever it left
					// uncovered it had no further candidate for; its victims (and those of earlier passes) are still here,
					// terminating, and count as released
					h.Fail("C11:terminating-victim-not-credited", "pass %d evicts pod %d (by %s) for the SAME pressure as pass %d (same pods, usages, node usage; no failed call there): the earlier victims %v are still terminating and must be credited - more pods are evicted than the first pass needed",
						ps, p.id, c11eFeatures[c.feat], ps-1, stillTerm)
				}
				if c.feat == 2 && usageTarget >= 0 {
					// real usage released so far: victims of this pass + still-terminating earlier victims that stand strictly
					// before this pod in the published order of the evicting feature (they are reached, hence credited, first)
					credit := okReal
					var who []int
					for _, v := range cur {
						if succ[v.id] && !okPods[v.id] && v.id != p.id && eligible(v, c.feat) && before(c.feat, v, p) {
							credit += realUse(v)
							who = append(who, v.id)
						}
					}
					if credit >= usageTarget {
						h.Fail("C11:evict-after-met", "pass %d: pod %d evicted by %s although the victims of this pass and the still-terminating earlier victims %v before it in the list really use %d >= target %d",
							ps, p.id, c11eFeatures[c.feat], who, credit, usageTarget)
					}
				}
				if c.ok {
					okPods[p.id] = true
					okReal += realUse(p)
				} else {
					failedNow = true
				}
			}
			h.Tag(fmt.Sprintf("pass-calls:%d", len(ex.calls)))
			h.Tag(fmt.Sprintf("pass:repeat=%v,still-terminating=%v,calls=%v", repeat, len(stillTerm) > 0, len(ex.calls) > 0))

			// ---- what the API server / kubelet / informer do until the next pass
			sameInputs = true
			for _, p := range cur {
				if term[p.id] {
					linger[p.id]--
					if linger[p.id] <= 0 {
						present[p.id] = false // the kubelet finished the pod
						sameInputs = false
						delete(succ, p.id)
						if used != nil && r.Chance(1, 2) {
							used = ptr.To(*used - realUse(p)) // its cpu is given back (or taken by somebody else at once)
							if *used < 0 {
								*used = 0
							}
						}
					}
				}
			}
			if onlyAPI {
				for _, name := range api.okName {
					p := byName[name]
					if p == nil {
						h.Fail("C11:harness-reason", "eviction of an unknown pod %q", name)
						continue
					}
					if started {
						succ[p.id] = true
					}
					if !term[p.id] {
						term[p.id] = true
						linger[p.id] = r.Range(1, 3)
						upd := obj[p.id].DeepCopy() // the informer delivers a NEW object
						upd.DeletionTimestamp = &metav1.Time{Time: time.Now()}
						upd.DeletionGracePeriodSeconds = ptr.To(int64(30))
						obj[p.id] = upd
					}
				}
			}
			prevFailed = failedNow
		}
		close(stop)
		for _, rfn := range restore {
			rfn()
		}
		ctl.Finish()
		if time.Since(caseStart) > c11pTTLSeconds*time.Second/2 {
			h.Fail("C11:harness-ttl", "history took %v: the TTL assumption of the harness does not hold", time.Since(caseStart))
		}
		h.Tag(fmt.Sprintf("passes:%d", nPass))
		h.Tag(fmt.Sprintf("repeat-passes:%d", repeatPasses))
		h.Tag(fmt.Sprintf("repeat-passes-with-terminating-victims:%d", creditedPasses))
		if creditedPasses > 0 {
			h.Nontrivial()
		}
		h.End()
	}
	h.Close("2-4 cpuEvict() passes of one evictor with the REAL Evictor + DefaultEvictionExecutor (API mode 9/10, started 11/12) against a fake " +
		"clientset: a successful eviction sets the deletionTimestamp on a NEW pod object that the statesinformer fixture hands out from the next pass on; " +
		"the pod stays Running with its usage for 1-3 passes, then disappears (node usage reduced by its usage or not); 1 pod in 12 is terminating from " +
		"the start (deleted by somebody else); 2-7 generated pods (shapes of e2ecpu, gomock metric fixture, BE satisfaction series mostly firing), mostly valid config under pressure, " +
		"per-pass API scripts (1 in 3 with failing calls); non-trivial = some pass repeats the inputs of the pass before it (no failed call there) " +
		"while earlier victims are still terminating; distinct by op lines")
}
