//go:build verif

package cpuevict

import (
	"fmt"
	"math/big"
	"sort"
	"strings"
	"testing"

	"go.uber.org/mock/gomock"
	corev1 "k8s.io/api/core/v1"
	"k8s.io/apimachinery/pkg/api/resource"
	metav1 "k8s.io/apimachinery/pkg/apis/meta/v1"
	"k8s.io/apimachinery/pkg/types"
	"k8s.io/utils/ptr"

	apiext "github.com/koordinator-sh/koordinator/apis/extension"
	slov1alpha1 "github.com/koordinator-sh/koordinator/apis/slo/v1alpha1"
	"github.com/koordinator-sh/koordinator/pkg/koordlet/metriccache"
	mock_metriccache "github.com/koordinator-sh/koordinator/pkg/koordlet/metriccache/mockmetriccache"
	maframework "github.com/koordinator-sh/koordinator/pkg/koordlet/metricsadvisor/framework"
	"github.com/koordinator-sh/koordinator/pkg/koordlet/qosmanager/framework"
	qosmanagerUtil "github.com/koordinator-sh/koordinator/pkg/koordlet/qosmanager/plugins/util"
	mock_statesinformer "github.com/koordinator-sh/koordinator/pkg/koordlet/statesinformer/mockstatesinformer"
	"github.com/koordinator-sh/koordinator/pkg/koordlet/util/testutil"
)

// C11 harness `selcpu`: victim selection and ordering of the CPU evictor.  One case = one
// generated pod set (QoS label, phase, eviction-policy / eviction-priority annotations,
// eviction-enabled / priority / priority-class labels, spec.priority, per-class requests, usage
// metric present or not) fed through the package's mock statesinformer / metric cache to the REAL
// getPodEvictInfoAndSortByUsed / ...ByAllocatable / getBEPodEvictInfoAndSort and to
// calculateMilliReleaseByUsedThresholdPercent.  Observed: the returned PodEvictInfo list (order + fields).

// ---- package-specific part -------------------------------------------------------------------

const c11IsCPU = true
const c11Policy = "CPUEvict" // evaluated eviction policy name (any string; passed through)

var c11PodMetric = metriccache.PodCPUUsageMetric
var c11NodeMetric = metriccache.NodeCPUUsageMetric

// metric value (cores) of a pod with milli-metric m (= int64(metric*1000)); m is a multiple of 125,
// so metric = m/1000 is dyadic and metric*1000 is exact in float64
func c11MetricValue(m int64) float64 { return float64(m) / 1000 }
func c11MilliMetric(r *vRand) int64 {
	if r.Chance(1, 5) {
		return 0
	}
	return int64(r.Range(1, 24)) * 125
}

var c11ResNative, c11ResMid, c11ResBatch = corev1.ResourceCPU, apiext.MidCPU, apiext.BatchCPU

func c11ReqQty(res corev1.ResourceName, v int64) resource.Quantity {
	if res == corev1.ResourceCPU {
		return *resource.NewMilliQuantity(v, resource.DecimalSI)
	}
	return *resource.NewQuantity(v, resource.DecimalSI)
}

type c11Evictor = cpuEvictor

func c11SelPrio(m *c11Evictor, byReq bool, cfg *slov1alpha1.ResourceThresholdStrategy) []*qosmanagerUtil.PodEvictInfo {
	pods := m.statesInformer.GetAllPods()
	if byReq {
		return m.getPodEvictInfoAndSortByAllocatable(c11Policy, cfg, pods)
	}
	return m.getPodEvictInfoAndSortByUsed(c11Policy, cfg, pods)
}
func c11SelBE(m *c11Evictor, cfg *slov1alpha1.ResourceThresholdStrategy) []*qosmanagerUtil.PodEvictInfo {
	return m.getBEPodEvictInfoAndSort(c11Policy, cfg, m.statesInformer.GetAllPods())
}
func c11InfoUsed(i *qosmanagerUtil.PodEvictInfo) int64 { return i.MilliCPUUsed }
func c11InfoReq(i *qosmanagerUtil.PodEvictInfo) int64  { return i.MilliCPURequest }
func c11BEUsedDiv() int64                              { return 1 }

// used-threshold target: returns (milli amount, present)
func c11Target(m *c11Evictor, node *corev1.Node, thr int64, lower *int64) (int64, bool) {
	cfg := &slov1alpha1.ResourceThresholdStrategy{CPUEvictThresholdPercent: ptr.To(thr), CPUEvictLowerPercent: lower}
	rl, _ := m.calculateMilliReleaseByUsedThresholdPercent(cfg, node, nil)
	q, ok := rl[corev1.ResourceCPU]
	return q.MilliValue(), ok
}
func c11NodeCapacity(capacity int64) *corev1.Node {
	n := testutil.MockTestNode("1", "1G")
	n.Status.Capacity[corev1.ResourceCPU] = *resource.NewMilliQuantity(capacity, resource.DecimalSI)
	return n
}

// node usage metric (cores) for `used` milli-cores (the integer the code derives: int64(metric*1000));
// `used` is a multiple of 125 so the float round trip is exact
func c11NodeMetricValue(used int64) float64 { return float64(used) / 1000 }

const c11Buffer = 2 // cpuReleaseBufferPercent
const c11UsedQuantum = 125

// ---- shared part (identical in cpuevict) -----------------------------------------------------

type c11Pod struct {
	id, name  int
	qos       int // 0 no label, 1 BE, 2 LS, 3 LSR, 4 LSE, 5 SYSTEM, 6 unknown string
	kube      int // status.qosClass: -1 unset (computed: Burstable), 0 Guaranteed, 1 Burstable, 2 BestEffort
	phase     int // 0 Pending 1 Running 2 Succeeded 3 Failed 4 Unknown
	polTop    int // eviction-policy annotation: 0 absent, 1 not JSON, 2 null, 3 array, 4 other JSON value
	polElems  []int // array elements: 0 the evaluated policy, 1 another string, 2 null, 3 not a string
	policyTxt string
	hasSpec   bool
	spec      int32
	clsLabel  int // 0 absent, 1 prod 2 mid 3 batch 4 free, 5 unknown string
	evictLbl  int // 0 absent 1 "true" 2 "false" 3 "True"
	epKind    int // eviction-priority annotation: 0 absent 1 sign+digits literal 2 malformed
	epTxt     string
	epNum     *big.Int
	lpKind    int // priority label, same kinds
	lpTxt     string
	lpNum     *big.Int
	hasMetric bool
	milli     int64 // int64(metric*1000)
	reqNative int64
	reqMid    int64
	reqBatch  int64
	batchCPU  int64 // batch-cpu request (BE CPU path)
	// metric fixture (verif_c11_metric_test.go): how the usage is (not) present in the metric cache
	qerr   bool        // the querier fails
	series []c11Sample // points in storage order; hasMetric / milli above are the EFFECTIVE values
	mstate string
	// containers (Model/C11Containers.lean); reqMid / reqBatch above are the sums by the property's reading:
	// regular containers + sidecar init containers, absent or non-positive requests counting 0
	ctrs []c11Ctr
}

type c11Ctr struct {
	kind       int   // 0 regular container, 1 init container (runs to completion), 2 init container with restartPolicy Always
	mid, batch int64 // request of the class's mid / batch resource; -1 = the resource name is absent
}

// c11GenCtrs spreads the pod's mid / batch requests over containers: half of the pods keep ONE container (the former
// shape), the others get 1-3 regular and 0-2 init containers (plain or sidecar) with absent / zero / positive requests.
func c11GenCtrs(r *vRand, p *c11Pod) {
	abs := func(v int64) int64 {
		if v == 0 {
			return -1
		}
		return v
	}
	if r.Chance(1, 2) {
		p.ctrs = []c11Ctr{{0, abs(p.reqMid), abs(p.reqBatch)}}
		return
	}
	one := func() int64 {
		switch r.Intn(5) {
		case 0:
			return -1
		case 1:
			return 0
		}
		return int64(r.Range(1, 4)) * 100
	}
	for i, n := 0, r.Range(1, 3); i < n; i++ {
		p.ctrs = append(p.ctrs, c11Ctr{0, one(), one()})
	}
	for i, n := 0, r.Intn(3); i < n; i++ {
		p.ctrs = append(p.ctrs, c11Ctr{1 + r.Intn(2), one(), one()})
	}
	p.reqMid, p.reqBatch = 0, 0
	for _, c := range p.ctrs {
		if c.kind == 1 {
			continue
		}
		if c.mid > 0 {
			p.reqMid += c.mid
		}
		if c.batch > 0 {
			p.reqBatch += c.batch
		}
	}
}

func c11CtrsOp(p *c11Pod) string {
	var sb strings.Builder
	fmt.Fprintf(&sb, "ctrs %d %d %d", p.id, vB(c11IsCPU), len(p.ctrs))
	for _, c := range p.ctrs {
		fmt.Fprintf(&sb, " %d %d %d", c.kind, c.mid, c.batch)
	}
	return sb.String()
}

var c11ClsNames = []string{"", "koord-prod", "koord-mid", "koord-batch", "koord-free", "koord-bogus"}
var c11ClsDefault = []int32{0, 9500, 7500, 5500, 3500}
var c11QoSNames = []string{"", "BE", "LS", "LSR", "LSE", "SYSTEM", "bogus"}
var c11Phases = []corev1.PodPhase{corev1.PodPending, corev1.PodRunning, corev1.PodSucceeded, corev1.PodFailed, corev1.PodUnknown}
var c11PrioPool = []int32{-1, 100, 120, 3000, 3500, 5000, 5500, 5999, 7000, 7500, 7999, 9000, 9500}

var c11NumLiterals = []string{"0", "1", "-1", "2", "-2", "+3", "-0", "007", "5", "100", "5500", "5501", "9999", "-3",
	"2147483647", "2147483648", "-2147483648", "-2147483649", "3000000000", "-3000000000", "99999999999",
	"9223372036854775807", "9223372036854775808", "-9223372036854775808", "-9223372036854775809", "99999999999999999999"}
var c11NumMalformed = []string{"abc", "1.5", "", " 5", "5 ", "0x10", "1_000", "1e3", "--1", "+", "1x", "٣"}

// harness' own reading of the protocol (not the repo's helpers)
func c11InBits(v *big.Int, bits uint) bool {
	lim := new(big.Int).Lsh(big.NewInt(1), bits-1)
	return v.Cmp(new(big.Int).Neg(lim)) >= 0 && v.Cmp(lim) < 0
}

// a bogus priority-class label makes the pod's class (hence its default priority and the request that is
// read) a matter of interpretation: the oracle stays silent on it, the model correspondence does not.
func (p *c11Pod) clsAmbiguous() bool { return p.clsLabel == 5 }
func (p *c11Pod) prioAmbiguous() bool {
	return p.clsAmbiguous() && !(p.hasSpec && p.spec != 0)
}
func (p *c11Pod) effPrio() int32 {
	if p.hasSpec && p.spec != 0 {
		return p.spec
	}
	return c11ClsDefault[p.cls()]
}
func c11RangeCls(v int32) int {
	switch {
	case v >= 9000 && v <= 9999:
		return 1
	case v >= 7000 && v <= 7999:
		return 2
	case v >= 5000 && v <= 5999:
		return 3
	case v >= 3000 && v <= 3999:
		return 4
	}
	return 0
}
func (p *c11Pod) cls() int {
	if p.clsLabel >= 1 && p.clsLabel <= 4 {
		return p.clsLabel
	}
	c := 0
	if p.hasSpec {
		c = c11RangeCls(p.spec)
	}
	if c != 0 {
		return c
	}
	switch p.qos {
	case 1:
		return 3 // BE => batch
	case 2, 3, 4, 5:
		return 1 // LS/LSR/LSE/SYSTEM => prod
	}
	if p.kube == 2 {
		return 3 // kube BestEffort => BE => batch
	}
	return 1 // Guaranteed => LSR, Burstable => LS: prod
}
func (p *c11Pod) request() int64 {
	switch p.cls() {
	case 2:
		return p.reqMid
	case 3:
		return p.reqBatch
	}
	return p.reqNative
}
func (p *c11Pod) evictPrio() int32 {
	if p.epKind == 1 && c11InBits(p.epNum, 32) {
		return int32(p.epNum.Int64())
	}
	return 0
}
func (p *c11Pod) labelPrio() int64 {
	if p.lpKind == 1 && c11InBits(p.lpNum, 64) {
		return p.lpNum.Int64()
	}
	return int64(p.effPrio())
}
func (p *c11Pod) policyOK() bool {
	switch p.polTop {
	case 0:
		return true
	case 3:
		has := false
		for _, e := range p.polElems {
			if e == 3 {
				return false // not a list of strings
			}
			has = has || e == 0
		}
		return has
	}
	return false
}
func (p *c11Pod) policyCode() int { // PolicyAnno of the model, for tags only
	switch {
	case p.polTop == 0:
		return 0
	case p.policyOK():
		return 1
	case p.polTop == 2:
		return 2
	case p.polTop == 3:
		for _, e := range p.polElems {
			if e == 3 {
				return 3
			}
		}
		return 2
	}
	return 3
}

func c11GenNum(r *vRand, small bool) (kind int, txt string, num *big.Int) {
	switch r.Intn(8) {
	case 0, 1, 2:
		return 0, "", nil
	case 3:
		txt = c11NumMalformed[r.Intn(len(c11NumMalformed))]
		return 2, txt, nil
	}
	if small && r.Chance(2, 3) {
		txt = fmt.Sprint(r.Range(-2, 2))
	} else {
		txt = c11NumLiterals[r.Intn(len(c11NumLiterals))]
	}
	num, _ = new(big.Int).SetString(txt, 10)
	return 1, txt, num
}

func c11GenPod(r *vRand, id, name int) *c11Pod {
	p := &c11Pod{id: id, name: name}
	if r.Chance(3, 5) {
		p.qos = 1
	} else {
		p.qos = r.Intn(7)
	}
	if r.Chance(4, 5) {
		p.phase = r.Intn(2)
	} else {
		p.phase = r.Intn(5)
	}
	p.kube = -1
	if r.Chance(1, 2) {
		p.kube = r.Intn(3)
	}
	if r.Chance(2, 3) {
		p.polTop = 0
	} else {
		p.polTop = r.Range(1, 4)
		if r.Chance(1, 2) {
			p.polTop = 3
		}
	}
	switch p.polTop {
	case 1:
		p.policyTxt = []string{`notjson`, ``, `[`, `["` + c11Policy + `"`, `['` + c11Policy + `']`}[r.Intn(5)]
	case 2:
		p.policyTxt = []string{`null`, ` null `}[r.Intn(2)]
	case 3:
		n := r.Intn(4)
		var parts []string
		for i := 0; i < n; i++ {
			e := r.Intn(4)
			if r.Chance(1, 2) {
				e = r.Intn(2)
			}
			p.polElems = append(p.polElems, e)
			switch e {
			case 0:
				parts = append(parts, `"`+c11Policy+`"`)
			case 1:
				parts = append(parts, []string{`"other"`, `"` + c11Policy + `x"`, `"` + strings.ToLower(c11Policy) + `"`, `""`}[r.Intn(4)])
			case 2:
				parts = append(parts, `null`)
			default:
				parts = append(parts, []string{`1`, `{"a":1}`, `true`, `["` + c11Policy + `"]`}[r.Intn(4)])
			}
		}
		p.policyTxt = "[" + strings.Join(parts, []string{",", " , "}[r.Intn(2)]) + "]"
	case 4:
		p.policyTxt = []string{`{"a":1}`, `"` + c11Policy + `"`, `1`, `true`}[r.Intn(4)]
	}
	switch r.Intn(10) {
	case 0: // nil priority: the class supplies the default
		if r.Chance(2, 3) {
			p.clsLabel = r.Range(1, 5)
		}
	case 1: // explicit zero priority: reads as the class default too
		p.hasSpec, p.spec = true, 0
		if r.Chance(2, 3) {
			p.clsLabel = r.Range(1, 5)
		}
	default:
		p.hasSpec = true
		p.spec = c11PrioPool[r.Intn(len(c11PrioPool))]
		if r.Chance(1, 6) {
			p.clsLabel = r.Range(1, 5)
		}
	}
	if r.Chance(3, 4) {
		p.evictLbl = 1
	} else {
		p.evictLbl = r.Intn(4)
	}
	p.epKind, p.epTxt, p.epNum = c11GenNum(r, true)
	if r.Chance(1, 2) {
		p.lpKind, p.lpTxt, p.lpNum = c11GenNum(r, false)
	}
	p.hasMetric = !r.Chance(1, 6)
	p.milli = c11MilliMetric(r)
	pick := func() int64 {
		if r.Chance(1, 5) {
			return 0
		}
		return int64(r.Range(1, 8)) * 100
	}
	p.reqNative = int64(r.Range(1, 8)) * 100 // always positive: the pod is never kube-BestEffort
	p.reqMid, p.reqBatch, p.batchCPU = pick(), pick(), pick()
	c11GenCtrs(r, p)
	return p
}

func (p *c11Pod) build() *corev1.Pod {
	labels := map[string]string{}
	var annotations map[string]string
	if p.qos != 0 {
		labels[apiext.LabelPodQoS] = c11QoSNames[p.qos]
	}
	if p.clsLabel != 0 {
		labels[apiext.LabelPodPriorityClass] = c11ClsNames[p.clsLabel]
	}
	if p.evictLbl != 0 {
		labels[apiext.LabelPodEvictEnabled] = []string{"", "true", "false", "True"}[p.evictLbl]
	}
	if p.lpKind != 0 {
		labels[apiext.LabelPodPriority] = p.lpTxt
	}
	if p.polTop != 0 || p.epKind != 0 {
		annotations = map[string]string{}
	} else if p.id%3 == 0 {
		annotations = map[string]string{"unrelated": "x"}
	}
	if p.polTop != 0 {
		annotations[apiext.AnnotationPodEvictPolicy] = p.policyTxt
	}
	if p.epKind != 0 {
		annotations[apiext.AnnotationPodEvictionPriority] = p.epTxt
	}
	if len(labels) == 0 && p.id%2 == 0 {
		labels = nil
	}
	var containers, inits []corev1.Container
	for i, c := range p.ctrs {
		req := corev1.ResourceList{}
		if c.mid >= 0 {
			req[c11ResMid] = c11ReqQty(c11ResMid, c.mid)
		}
		if c.batch >= 0 {
			req[c11ResBatch] = c11ReqQty(c11ResBatch, c.batch)
		}
		ctr := corev1.Container{Name: fmt.Sprintf("c%d", i), Resources: corev1.ResourceRequirements{Requests: req}}
		switch c.kind {
		case 0:
			containers = append(containers, ctr)
		case 2:
			ctr.RestartPolicy = ptr.To(corev1.ContainerRestartPolicyAlways)
			inits = append(inits, ctr)
		default:
			inits = append(inits, ctr)
		}
	}
	// the native request (k8s resourcehelper.PodRequests: trusted) stays on the first regular container
	req := containers[0].Resources.Requests
	req[c11ResNative] = c11ReqQty(c11ResNative, p.reqNative)
	if c11IsCPU {
		// c11ResBatch is batch-cpu there; batchCPU == reqBatch
	} else if p.batchCPU > 0 {
		req[apiext.BatchCPU] = *resource.NewQuantity(p.batchCPU, resource.DecimalSI)
	}
	pod := &corev1.Pod{
		ObjectMeta: metav1.ObjectMeta{Namespace: "ns", Name: fmt.Sprintf("p%02d", p.name), UID: types.UID(fmt.Sprintf("u%d", p.id)),
			Labels: labels, Annotations: annotations},
		Spec:   corev1.PodSpec{Containers: containers, InitContainers: inits},
		Status: corev1.PodStatus{Phase: c11Phases[p.phase]},
	}
	if p.kube >= 0 {
		pod.Status.QOSClass = []corev1.PodQOSClass{corev1.PodQOSGuaranteed, corev1.PodQOSBurstable, corev1.PodQOSBestEffort}[p.kube]
	}
	if p.hasSpec {
		pod.Spec.Priority = ptr.To(p.spec)
	}
	return pod
}


func c11LexLess(a, b []int64) int {
	for i := range a {
		if a[i] != b[i] {
			if a[i] < b[i] {
				return -1
			}
			return 1
		}
	}
	return 0
}

func TestVerifC11Select(t *testing.T) {
	h := vOpen("C11")
	if h == nil {
		t.Skip("VERIF_OUT not set")
	}
	oldFactory := metriccache.DefaultAggregateResultFactory
	defer func() { metriccache.DefaultAggregateResultFactory = oldFactory }()
	n := h.N(1500, 40000)
	for idx := 0; idx < n; idx++ {
		r := h.Begin(idx)
		if r == nil {
			continue
		}
		np := r.Range(1, 8)
		if r.Chance(1, 10) {
			np = r.Range(9, 12)
		}
		names := r.Perm(np)
		pods := make([]*c11Pod, np)
		allNil := r.Chance(1, 10) // BE sorts compare spec.priority pointers: keep them all nil or all set
		for i := range pods {
			pods[i] = c11GenPod(r, i, names[i])
			if allNil {
				pods[i].hasSpec, pods[i].spec = false, 0
			} else if !pods[i].hasSpec {
				pods[i].hasSpec, pods[i].spec = true, 0
			}
			if c11IsCPU {
				pods[i].batchCPU = pods[i].reqBatch
			}
		}
		byID := map[string]*c11Pod{}
		var real []*corev1.Pod
		for _, p := range pods {
			real = append(real, p.build())
			byID[fmt.Sprintf("u%d", p.id)] = p
		}
		thr := []int32{100, 3000, 5500, 5999, 7999, 9999, 7999, 9999}[r.Intn(8)]

		ctl := gomock.NewController(t)
		si := mock_statesinformer.NewMockStatesInformer(ctl)
		si.EXPECT().GetAllPods().Return(testutil.GetPodMetas(real)).AnyTimes()
		mc := mock_metriccache.NewMockMetricCache(ctl)
		rf := mock_metriccache.NewMockAggregateResultFactory(ctl)
		metriccache.DefaultAggregateResultFactory = rf
		q := mock_metriccache.NewMockQuerier(ctl)
		mc.EXPECT().Querier(gomock.Any(), gomock.Any()).Return(q, nil).AnyTimes()
		for _, p := range pods {
			res := mock_metriccache.NewMockAggregateResult(ctl)
			// a pod without a metric: the query fails, or it succeeds with an EMPTY result (Count()==0, Value errs)
			p.qerr = !p.hasMetric && r.Chance(1, 2)
			p.mstate = map[bool]string{true: "single", false: map[bool]string{true: "qerr", false: "empty"}[p.qerr]}[p.hasMetric]
			h.Tag("metric-state:" + p.mstate)
			if !p.hasMetric && !p.qerr {
				res.EXPECT().Value(gomock.Any()).Return(float64(0), fmt.Errorf("metric input is empty")).AnyTimes()
				res.EXPECT().Count().Return(0).AnyTimes()
			} else {
				res.EXPECT().Value(gomock.Any()).Return(c11MetricValue(p.milli), nil).AnyTimes()
				res.EXPECT().Count().Return(1).AnyTimes()
			}
			meta, err := c11PodMetric.BuildQueryMeta(metriccache.MetricPropertiesFunc.Pod(fmt.Sprintf("u%d", p.id)))
			if err != nil {
				t.Fatal(err)
			}
			rf.EXPECT().New(meta).Return(res).AnyTimes()
			if !p.qerr {
				q.EXPECT().QueryAndClose(meta, gomock.Any(), gomock.Any()).SetArg(2, *res).Return(nil).AnyTimes()
			} else {
				q.EXPECT().QueryAndClose(meta, gomock.Any(), gomock.Any()).Return(fmt.Errorf("no metric")).AnyTimes()
			}
		}
		// node metric for the target formula
		capacity := int64(r.Range(1, 40)) * 100
		used := int64(r.Range(0, int(capacity)+50)) / c11UsedQuantum * c11UsedQuantum
		tThr := int64(r.Range(0, 100))
		var lower *int64
		if r.Chance(1, 2) {
			lower = ptr.To(int64(r.Range(0, int(tThr))) - int64(r.Intn(2)))
		}
		nres := mock_metriccache.NewMockAggregateResult(ctl)
		nres.EXPECT().Value(gomock.Any()).Return(c11NodeMetricValue(used), nil).AnyTimes()
		nres.EXPECT().Count().Return(1).AnyTimes()
		nmeta, _ := c11NodeMetric.BuildQueryMeta(nil)
		rf.EXPECT().New(nmeta).Return(nres).AnyTimes()
		q.EXPECT().QueryAndClose(nmeta, gomock.Any(), gomock.Any()).SetArg(2, *nres).Return(nil).AnyTimes()

		opt := &framework.Options{StatesInformer: si, MetricCache: mc, Config: framework.NewDefaultConfig(), MetricAdvisorConfig: maframework.NewDefaultConfig()}
		ev := New(opt).(*c11Evictor)

		for _, p := range pods {
			numTok := func(kind int, n *big.Int) string {
				if kind == 1 {
					return "1 " + n.String()
				}
				return fmt.Sprintf("%d 0", kind)
			}
			kube := p.kube
			if kube < 0 {
				kube = 1 // requests without limits: GetPodQOS computes Burstable
			}
			el := p.evictLbl
			if el > 1 {
				el = 2
			}
			h.Op("rawpod %d %d %d %d %d %d %d %d %d %s %s %d %d %d %d %d %d %d %d %s", p.id, p.name, p.qos, kube, p.phase,
				vB(p.hasSpec), p.spec, p.clsLabel, el, numTok(p.epKind, p.epNum), numTok(p.lpKind, p.lpNum), p.polTop,
				vB(p.hasMetric), p.milli, p.reqNative, p.reqMid, p.reqBatch, p.batchCPU, len(p.polElems), vIntsI(p.polElems))
			h.Op("%s", c11CtrsOp(p))
			h.Tag(fmt.Sprintf("containers:%d", len(p.ctrs)))
			h.Tag(fmt.Sprintf("policy-shape:%d/%d", p.polTop, p.policyCode()))
			h.Tag(fmt.Sprintf("evict-prio:%d/inrange=%v", p.epKind, p.epKind == 1 && c11InBits(p.epNum, 32)))
			h.Tag(fmt.Sprintf("spec-prio:%v/zero=%v/clsLabel=%d", p.hasSpec, p.hasSpec && p.spec == 0, p.clsLabel))
		}

		emit := func(out []*qosmanagerUtil.PodEvictInfo, same func(a, b *qosmanagerUtil.PodEvictInfo) bool) []*c11Pod {
			// canonical: pods whose sort keys are equal (adjacent) are listed by id
			var res []*c11Pod
			i := 0
			for i < len(out) {
				j := i + 1
				for j < len(out) && same(out[j-1], out[j]) {
					j++
				}
				run := append([]*qosmanagerUtil.PodEvictInfo(nil), out[i:j]...)
				sort.Slice(run, func(a, b int) bool { return byID[string(run[a].Pod.UID)].id < byID[string(run[b].Pod.UID)].id })
				for _, x := range run {
					p := byID[string(x.Pod.UID)]
					h.Obs("info %d %d %d %d %d %d", p.id, x.EvictionPriority, x.Priority, x.LabelPriority, c11InfoUsed(x), c11InfoReq(x))
				}
				i = j
			}
			h.Obs("end")
			for _, x := range out {
				res = append(res, byID[string(x.Pod.UID)])
			}
			return res
		}

		// ---- priority-based selection (by usage, by request)
		for _, byReq := range []bool{false, true} {
			cfg := &slov1alpha1.ResourceThresholdStrategy{EvictEnabledPriorityThreshold: ptr.To(thr), AllocatableEvictPriorityThreshold: ptr.To(thr)}
			h.Op("selprio %d %d %d", thr, vB(byReq), vB(!c11IsCPU))
			var out []*qosmanagerUtil.PodEvictInfo
			if h.Guard(func() { out = c11SelPrio(ev, byReq, cfg) }) {
				h.Obs("panic")
				h.Fail("C11:panic", "selection panicked")
				continue
			}
			sub := func(x *qosmanagerUtil.PodEvictInfo) int64 {
				if byReq {
					return c11InfoReq(x)
				}
				return c11InfoUsed(x)
			}
			sel := emit(out, func(a, b *qosmanagerUtil.PodEvictInfo) bool {
				return a.EvictionPriority == b.EvictionPriority && a.Priority == b.Priority && a.LabelPriority == b.LabelPriority && sub(a) == sub(b)
			})
			// oracle: what a victim is credited with when the target is in requests (and what the allocatable features sort
			// by) is the request of the pod's class resource summed over the containers that run side by side
			for _, x := range out {
				if p := byID[string(x.Pod.UID)]; p != nil && !p.clsAmbiguous() && c11InfoReq(x) != p.request() {
					h.Fail("C11:request-miscounted", "priority path: pod %d (class %d, containers (kind, mid, batch) %v) carries request %d, its concurrent containers request %d", p.id, p.cls(), p.ctrs, c11InfoReq(x), p.request())
				}
			}
			// oracle: eligibility and published order, from the generated attributes only
			key := func(p *c11Pod) []int64 {
				s := p.milli
				if byReq {
					s = p.request()
				}
				return []int64{int64(p.evictPrio()), int64(p.effPrio()), p.labelPrio(), -s}
			}
			for i, p := range sel {
				if !((p.prioAmbiguous() || p.effPrio() <= thr) && p.evictLbl == 1 && p.policyOK()) {
					h.Fail("C11:ineligible-victim", "priority path: pod %d (prio %d thr %d evictLbl %d policy %d/%v) selected", p.id, p.effPrio(), thr, p.evictLbl, p.polTop, p.polElems)
				}
				if !p.hasMetric {
					h.Fail("C11:victim-without-metric", "priority path: pod %d listed as a victim although the agent has no usage sample of it (%s)", p.id, p.mstate)
				}
				if i > 0 && (p.prioAmbiguous() || sel[i-1].prioAmbiguous() || (byReq && (p.clsAmbiguous() || sel[i-1].clsAmbiguous()))) {
					continue
				}
				if i > 0 && c11LexLess(key(sel[i-1]), key(p)) > 0 {
					h.Fail("C11:list-out-of-order", "priority path: pod %d listed before pod %d", sel[i-1].id, p.id)
				}
			}
			if len(sel) >= 2 {
				h.Nontrivial()
			}
			h.Tag(fmt.Sprintf("prio-selected:%d", len(sel)))
		}

		// ---- BE selection
		{
			cmd := "selbemem"
			if c11IsCPU {
				cmd = "selbecpu"
			}
			h.Op(cmd)
			var out []*qosmanagerUtil.PodEvictInfo
			if h.Guard(func() { out = c11SelBE(ev, &slov1alpha1.ResourceThresholdStrategy{}) }) {
				h.Obs("panic")
				h.Fail("C11:panic", "BE selection panicked")
			} else {
				sel := emit(out, func(a, b *qosmanagerUtil.PodEvictInfo) bool {
					if !c11IsCPU {
						return false // total order (names are distinct)
					}
					pa, pb := a.Pod.Spec.Priority, b.Pod.Spec.Priority
					return ((pa == nil && pb == nil) || (pa != nil && pb != nil && *pa == *pb)) && a.CpuUsage == b.CpuUsage
				})
				usedOf := func(p *c11Pod) int64 {
					if !p.hasMetric {
						return 0
					}
					return p.milli / c11BEUsedDiv()
				}
				for i, p := range sel {
					if !(p.qos == 1 && p.policyOK()) {
						h.Fail("C11:ineligible-victim", "BE path: pod %d (qos %d policy %d/%v) selected", p.id, p.qos, p.polTop, p.polElems)
					}
					if i == 0 {
						continue
					}
					a := sel[i-1]
					bad := false
					if a.hasSpec && p.hasSpec && a.spec != p.spec {
						bad = a.spec > p.spec
					} else if c11IsCPU {
						ra, rb := float64(0), float64(0)
						if a.batchCPU > 0 {
							ra = float64(usedOf(a)) / float64(a.batchCPU)
						}
						if p.batchCPU > 0 {
							rb = float64(usedOf(p)) / float64(p.batchCPU)
						}
						bad = ra < rb
					} else {
						ua, ub := usedOf(a), usedOf(p)
						switch {
						case ua != 0 && ub != 0:
							bad = ua < ub
						case ua == 0 && ub == 0:
							bad = a.name < p.name
						default:
							bad = ua == 0
						}
					}
					if bad {
						h.Fail("C11:list-out-of-order", "BE path: pod %d listed before pod %d", a.id, p.id)
					}
				}
				h.Tag(fmt.Sprintf("be-selected:%d", len(sel)))
			}
		}

		// ---- used-threshold release target (integer part)
		{
			hl, lo := 0, int64(0)
			if lower != nil {
				hl, lo = 1, *lower
			}
			h.Op("tgt %d %d %d %d %d %d", capacity, used, tThr, hl, lo, c11Buffer)
			var amt int64
			var ok bool
			if h.Guard(func() { amt, ok = c11Target(ev, c11NodeCapacity(capacity), tThr, lower) }) {
				h.Obs("tgt panic")
			} else if ok {
				h.Obs("tgt %d", amt)
			} else {
				h.Obs("tgt none")
			}
			pct := used * 100 / capacity
			if ok && pct < tThr {
				h.Fail("C11:target-below-threshold", "target %d although usage %d%% < threshold %d%%", amt, pct, tThr)
			}
			if ok {
				l := tThr - c11Buffer
				if lower != nil {
					l = *lower
				}
				if amt != capacity*(pct-l)/100 {
					h.Fail("C11:target-formula", "target %d != capacity*(usage-lower)/100 = %d", amt, capacity*(pct-l)/100)
				}
			}
			h.Tag(fmt.Sprintf("tgt:%v", ok))
		}
		ctl.Finish()
		h.End()
	}
	h.Close("1-12 generated pods (QoS label incl. absent/unknown, 5 phases, eviction-policy annotation absent/listing/not listing/malformed, " +
		"spec.priority nil/0/13 values across the koordinator ranges, priority-class label, eviction-enabled label variants, eviction-priority and " +
		"priority labels valid/invalid/absent, usage metric present/absent/zero, per-class requests), threshold from 6 values; " +
		"non-trivial = a priority-based selection with >= 2 victims; distinct by op lines")
}
