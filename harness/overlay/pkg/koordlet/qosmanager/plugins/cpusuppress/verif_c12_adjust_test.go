//go:build verif

package cpusuppress

import (
	"fmt"
	"math"
	"os"
	"path/filepath"
	"sort"
	"testing"

	topov1alpha1 "github.com/k8stopologyawareschedwg/noderesourcetopology-api/pkg/apis/topology/v1alpha1"
	"go.uber.org/mock/gomock"
	corev1 "k8s.io/api/core/v1"
	"k8s.io/apimachinery/pkg/api/resource"

	apiext "github.com/koordinator-sh/koordinator/apis/extension"
	"github.com/koordinator-sh/koordinator/pkg/koordlet/metriccache"
	mockmetriccache "github.com/koordinator-sh/koordinator/pkg/koordlet/metriccache/mockmetriccache"
	maframework "github.com/koordinator-sh/koordinator/pkg/koordlet/metricsadvisor/framework"
	"github.com/koordinator-sh/koordinator/pkg/koordlet/qosmanager/framework"
	"github.com/koordinator-sh/koordinator/pkg/koordlet/resourceexecutor"
	"github.com/koordinator-sh/koordinator/pkg/koordlet/statesinformer"
	mockstatesinformer "github.com/koordinator-sh/koordinator/pkg/koordlet/statesinformer/mockstatesinformer"
	koordletutil "github.com/koordinator-sh/koordinator/pkg/koordlet/util"
	"github.com/koordinator-sh/koordinator/pkg/koordlet/util/system"
)

// C12 harness `adjust`: the REAL adjustByCPUSet - one level above applyBESuppressCPUSet - on a temp cgroup root, so
// that the OLD cpuset of the two-phase rewrite is whatever the code itself reads from the cgroup tree (the harness does
// not pass it).  Multi-round histories on one executor: the kubelet cpu-manager policy switches static <-> none between
// rounds (a static round leaves the containers narrower than the besteffort root), outside writers (runtime / kubelet)
// set container cpusets within their pod's between rounds, the node topology (which CPUs the policy picks) changes.
// All cpuset files are inspected after every single updater (c12npStepExec of verif_c12_test.go).
//
// The NEW set is not chosen by the harness either: it is what calculateBESuppressCPUSetPolicy (C10's subject, a pure
// function, called here too) picks for the CPU count the harness derives from the quantity by its own reading of
// adjustByCPUSet: max(2, ceil(milli/1000)), at most |root set| + ceil(N * 0.1); the CPUs offered are the processors that
// are not node-reserved.  The oracle is the one of `suppress`: containment after every write; final = target.
//
// op lines:  ext <dir> <cpus>                                   an outside writer sets a container's cpuset
//            adj <kind> <expired> <cpus> <rec> <m> <walk order>  (see Driver/C12.lean; old set = content of dir 0)

func c12adjMask(xs []int32) int64 {
	var m int64
	for _, x := range xs {
		m |= 1 << uint(x)
	}
	return m
}

func TestVerifC12Adjust(t *testing.T) {
	h := vOpen("C12")
	if h == nil {
		t.Skip("VERIF_OUT not set")
	}
	oldRoot, oldV2 := system.Conf.CgroupRootDir, system.UseCgroupsV2.Load()
	defer func() { system.Conf.CgroupRootDir = oldRoot; system.UseCgroupsV2.Store(oldV2) }()
	base := t.TempDir()

	n := h.N(2000, 20000)
	for idx := 0; idx < n; idx++ {
		r := h.Begin(idx)
		if r == nil {
			continue
		}
		root := filepath.Join(base, fmt.Sprintf("a%d", idx))
		system.Conf.CgroupRootDir = root
		v2 := r.Chance(1, 3)
		system.UseCgroupsV2.Store(v2)
		beDir := koordletutil.GetRootCgroupCPUSetDir(corev1.PodQOSBestEffort)

		universe := []int{6, 8, 12, 16}[r.Intn(4)]
		full := int64(1)<<uint(universe) - 1
		var reserved int64
		if r.Chance(1, 3) {
			reserved = int64(r.next()) & full & int64(r.next())
			if reserved == full {
				reserved = 1
			}
		}
		pool := full &^ reserved

		tr := &c12npTree{h: h}
		add := func(parent int, name string) int {
			tr.parent = append(tr.parent, parent)
			tr.name = append(tr.name, name)
			return len(tr.parent) - 1
		}
		add(-1, "")
		dirOf := []string{beDir}
		depth := []int{0}
		used := map[string]bool{}
		uniq := func(prefix, suffix string) string {
			for {
				s := fmt.Sprintf("%s%d%s", prefix, r.Range(0, 30), suffix)
				if !used[s] {
					used[s] = true
					return s
				}
			}
		}
		var ctrs []int
		npods := r.Range(0, 3)
		if npods == 0 && !r.Chance(1, 4) {
			npods = 1
		}
		for p := 0; p < npods; p++ {
			pi := add(0, uniq("kubepods-besteffort-pod", ".slice"))
			dirOf = append(dirOf, filepath.Join(beDir, tr.name[pi]))
			depth = append(depth, 1)
			for c, nc := 0, r.Range(0, 3); c < nc; c++ {
				ci := add(pi, uniq("cri-containerd-", ".scope"))
				dirOf = append(dirOf, filepath.Join(dirOf[pi], tr.name[ci]))
				depth = append(depth, 2)
				ctrs = append(ctrs, ci)
			}
		}
		nn := len(tr.parent)
		// start: a valid hierarchy inside the share pool: uniform (what a none round leaves), static-like (root = pods =
		// pool, containers on a subset), or random subsets downwards
		startShape := r.Intn(3)
		rootSet := pool
		if startShape != 1 {
			rootSet = c12npSubset(pool, r)
		}
		malformed := r.Chance(1, 15)
		if malformed && r.Bool() {
			rootSet = c12npSubset(full, r) // may leave the pool
		}
		tr.vals = make([]int64, nn)
		ctrSet := c12npSubset(rootSet, r)
		for i := range tr.vals {
			switch {
			case i == 0:
				tr.vals[i] = rootSet
			case startShape == 0:
				tr.vals[i] = tr.vals[tr.parent[i]]
			case startShape == 1:
				if depth[i] == 1 {
					tr.vals[i] = rootSet
				} else {
					tr.vals[i] = ctrSet
				}
			default:
				tr.vals[i] = c12npSubset(tr.vals[tr.parent[i]], r)
			}
		}
		if malformed && nn > 1 && r.Chance(1, 3) {
			c := r.Range(1, nn-1)
			tr.vals[c] |= 1 << uint(universe) // a child beyond its parent
		}
		for i := 0; i < nn; i++ {
			p := filepath.Join(dirOf[i], system.CPUSetCPUSName)
			tr.paths = append(tr.paths, p)
			if err := os.MkdirAll(dirOf[i], 0o755); err != nil {
				t.Fatal(err)
			}
			if err := os.WriteFile(p, []byte(c12npSetStr(tr.vals[i], !r.Chance(1, 6))), 0o644); err != nil {
				t.Fatal(err)
			}
			_ = os.Chtimes(p, c12npSentinel, c12npSentinel)
		}
		// cgroup v2: koordlet READS cpuset.cpus.effective; the harness plays the kernel (effective = cpus in a valid tree)
		syncEffective := func() {
			if !v2 {
				return
			}
			for i := 0; i < nn; i++ {
				b, _ := os.ReadFile(tr.paths[i])
				_ = os.WriteFile(filepath.Join(dirOf[i], system.CPUSetCPUSEffectiveName), b, 0o644)
			}
		}
		var order []int64
		var walk func(i int)
		walk = func(i int) {
			order = append(order, int64(i))
			var kids []int
			for c, p := range tr.parent {
				if p == i {
					kids = append(kids, c)
				}
			}
			sort.Slice(kids, func(a, b int) bool { return tr.name[kids[a]] < tr.name[kids[b]] })
			for _, c := range kids {
				walk(c)
			}
		}
		walk(0)
		pi := make([]int64, nn)
		for i, p := range tr.parent {
			pi[i] = int64(p)
		}
		h.Op("be %d %s %s", nn, vInts(pi), vInts(tr.vals))
		h.Tag(fmt.Sprintf("dirs:%d", nn))
		h.Tag(fmt.Sprintf("v2:%d", vB(v2)))
		h.Tag(fmt.Sprintf("cpus:%d", universe))

		var curTopo *topov1alpha1.NodeResourceTopology
		cpuInfoOK := true
		// node topology: hyper-thread pairs (2k, 2k+1) or (k, k+N/2); 1 or 2 NUMA nodes; may change between rounds
		mkInfo := func() *metriccache.NodeCPUInfo {
			info := &metriccache.NodeCPUInfo{}
			pairing, numa := r.Intn(2), r.Range(1, 2)
			for _, id := range r.Perm(universe) {
				core := id / 2
				if pairing == 1 {
					core = id % (universe / 2)
				}
				node := 0
				if numa == 2 && core >= universe/4 {
					node = 1
				}
				info.ProcessorInfos = append(info.ProcessorInfos, koordletutil.ProcessorInfo{CPUID: int32(id), CoreID: int32(core), SocketID: int32(node), NodeID: int32(node)})
			}
			return info
		}
		cpuInfo := mkInfo()
		ctl := gomock.NewController(t)
		si := mockstatesinformer.NewMockStatesInformer(ctl)
		si.EXPECT().GetNodeTopo().DoAndReturn(func() *topov1alpha1.NodeResourceTopology { return curTopo }).AnyTimes()
		si.EXPECT().GetAllPods().Return([]*statesinformer.PodMeta{}).AnyTimes()
		mc := mockmetriccache.NewMockMetricCache(ctl)
		mc.EXPECT().Get(metriccache.NodeCPUInfoKey).DoAndReturn(func(string) (interface{}, bool) {
			if !cpuInfoOK {
				return nil, false
			}
			return cpuInfo, true
		}).AnyTimes()

		s := newTestCPUSuppress(&framework.Options{StatesInformer: si, MetricCache: mc,
			Config: framework.NewDefaultConfig(), MetricAdvisorConfig: maframework.NewDefaultConfig()})
		inner := s.executor.(*resourceexecutor.ResourceUpdateExecutorImpl)
		stop := make(chan struct{})
		inner.Run(stop)
		s.executor = &c12npStepExec{inner: inner, t: tr}

		stale := make([]bool, nn) // an outside writer touched the file after the executor's last write to it
		prevKind := -1
		for call, ncalls := 0, r.Range(2, 5); call < ncalls; call++ {
			// --- outside writers between two rounds: a container's cpuset is set within its pod's current set ---
			if len(ctrs) > 0 && r.Chance(1, 3) {
				for k, nw := 0, r.Range(1, 2); k < nw; k++ {
					c := ctrs[r.Intn(len(ctrs))]
					within := tr.vals[c] // narrow
					if r.Chance(1, 4) {
						within = tr.vals[tr.parent[c]] // anything inside the pod's set
					}
					if within <= 0 {
						continue
					}
					v := c12npSubset(within, r)
					if v == tr.vals[c] {
						continue
					}
					if err := os.WriteFile(tr.paths[c], []byte(c12npSetStr(v, r.Bool())), 0o644); err != nil {
						t.Fatal(err)
					}
					_ = os.Chtimes(tr.paths[c], c12npSentinel, c12npSentinel)
					tr.vals[c] = v
					stale[c] = true
					h.Op("ext %d %d", c, v)
					h.Tag("outside-writer")
				}
			}
			if r.Chance(1, 4) {
				cpuInfo = mkInfo()
			}
			syncEffective()
			start := append([]int64(nil), tr.vals...)
			rootNow := start[0]

			// --- policy of this round ---
			kind := c12spStatic
			if r.Bool() {
				kind = c12spNone
			}
			if r.Chance(1, 40) {
				kind = c12spBadAnno
			} else if r.Chance(1, 50) {
				kind = c12spTopoNil
			}
			anno := map[string]string{}
			if reserved != 0 {
				anno[apiext.AnnotationNodeReservation] = fmt.Sprintf(`{"reservedCPUs":%q}`, c12npSetStr(reserved, r.Bool()))
			}
			polTag := ""
			switch kind {
			case c12spStatic:
				anno[apiext.AnnotationKubeletCPUManagerPolicy] = []string{
					`{"policy":"static"}`, `{"policy":"static","options":{"full-pcpus-only":"true"}}`}[r.Intn(2)]
				polTag = "static"
			case c12spNone:
				switch r.Intn(4) {
				case 0:
					polTag = "missing"
				case 1:
					anno[apiext.AnnotationKubeletCPUManagerPolicy] = []string{`{}`, `{"policy":"Static"}`, `{"policy":"dynamic"}`}[r.Intn(3)]
					polTag = "other-string"
				default:
					anno[apiext.AnnotationKubeletCPUManagerPolicy] = `{"policy":"none"}`
					polTag = "none"
				}
			case c12spBadAnno:
				anno[apiext.AnnotationKubeletCPUManagerPolicy] = []string{`static`, `{"policy":`, `{"policy":1}`}[r.Intn(3)]
				polTag = "unparsable"
			}
			curTopo = &topov1alpha1.NodeResourceTopology{}
			curTopo.Annotations = anno
			if kind == c12spTopoNil {
				curTopo = nil
				polTag = "topo-nil"
			}
			cpuInfoOK = !r.Chance(1, 50)
			rec := pool
			if !cpuInfoOK {
				rec = -1
			}
			h.Tag("policy:" + polTag)
			if prevKind >= 0 {
				h.Tag(fmt.Sprintf("switch:%d->%d", prevKind, kind))
			}
			prevKind = kind

			// --- the quantity, and the set the policy has to pick for it (harness' own reading of adjustByCPUSet) ---
			milli := int64(r.Range(0, c12npPop(pool)*1000))
			switch r.Intn(6) {
			case 0:
				milli = int64(r.Range(0, (universe+1)*1000)) // may ask for more CPUs than the policy is offered
			case 1, 2:
				milli = int64(r.Range(0, c12npPop(pool))) * 1000
			}
			want := int32(math.Ceil(float64(milli) / 1000))
			if want < 2 {
				want = 2
			}
			inc := int32(math.Ceil(float64(universe) * 0.1))
			if rootLen := int32(c12npPop(rootNow)); rootNow >= 0 && want-rootLen > inc {
				want = rootLen + inc
				h.Tag("increase-capped")
			}
			var offered []koordletutil.ProcessorInfo
			for _, p := range cpuInfo.ProcessorInfos {
				if reserved&(1<<uint(p.CPUID)) == 0 {
					offered = append(offered, p)
				}
			}
			cpus := c12adjMask(calculateBESuppressCPUSetPolicy(want, offered))
			if cpus == 0 {
				h.Tag("new-set-empty")
			}
			expired := r.Chance(1, 4)
			inner.Config.ResourceForceUpdateSeconds = 60
			if expired {
				inner.Config.ResourceForceUpdateSeconds = -1
			}
			h.Op("adj %d %d %d %d %d %s", kind, vB(expired), cpus, rec, nn, vInts(order))

			startValid := tr.valid(start)
			inPool := true
			narrower := false
			for i, v := range start {
				if v&^pool != 0 {
					inPool = false
				}
				if depth[i] == 2 && v != rootNow {
					narrower = true
				}
			}
			tr.writes = tr.writes[:0]
			tr.bad, tr.garble = false, false
			switch kind {
			case c12spStatic:
				tr.check = startValid && inPool && cpus&^pool == 0 && cpuInfoOK
			default:
				// none policy: NO hypothesis about the old set - the code reads the root's own set, and a valid tree is within it
				tr.check = startValid
			}
			if kind == c12spNone && narrower && startValid {
				h.Tag("none-round-on-narrower-containers")
			}
			q := resource.NewMilliQuantity(milli, resource.DecimalSI)
			if h.Guard(func() { s.adjustByCPUSet(q, cpuInfo) }) {
				h.Obs("panic")
			}
			final := make([]int64, nn)
			for i, p := range tr.paths {
				b, _ := os.ReadFile(p)
				v, ok := c12npParseSet(string(b))
				if !ok {
					v = -3
				}
				final[i] = v
			}
			h.Obs("st %s", vInts(final))
			h.Tag(fmt.Sprintf("writes:%d", len(tr.writes)))
			written := make([]bool, nn)
			for _, w := range tr.writes {
				written[w[0]] = true
				stale[w[0]] = false
			}

			// ---------------- property oracle ----------------
			changes := false
			for i := range final {
				if final[i] != start[i] {
					changes = true
				}
			}
			if tr.check {
				h.Tag(fmt.Sprintf("oracle:full:kind%d", kind))
				if changes && nn > 1 {
					h.Nontrivial()
				}
			} else {
				h.Tag(fmt.Sprintf("oracle:final-only:kind%d", kind))
			}
			switch kind {
			case c12spStatic:
				if tr.check && tr.bad {
					h.Fail("C12:static-policy-invalid-intermediate", "adjustByCPUSet, static policy: after some write a BE dir's cpuset is not within its parent's (pool %d new %d start %v writes %v)", pool, cpus, start, tr.writes)
				}
				if cpuInfoOK {
					for i := range final {
						want := start[i]
						if depth[i] <= 1 {
							want = pool
						} else if cpus != 0 {
							want = cpus
						}
						if final[i] != want && !stale[i] {
							h.Fail("C12:static-policy-final-wrong", "adjustByCPUSet, static policy: dir %d (depth %d) holds %d, want %d (pool %d new %d start %v)", i, depth[i], final[i], want, pool, cpus, start)
							break
						}
					}
				}
			case c12spNone:
				if tr.check && tr.bad {
					h.Fail("C12:none-policy-invalid-intermediate", "adjustByCPUSet, none policy: after some write a BE dir's cpuset is not within its parent's (root held %d, new %d, start %v, writes %v)", rootNow, cpus, start, tr.writes)
				}
				if cpus != 0 {
					for i := range final {
						if final[i] != cpus && !stale[i] {
							h.Fail("C12:none-policy-final-not-target", "adjustByCPUSet, none policy: dir %d holds %d, target %d (root held %d start %v)", i, final[i], cpus, rootNow, start)
							break
						}
					}
				}
			default:
				if len(tr.writes) != 0 && tr.check && tr.bad {
					h.Fail("C12:static-policy-invalid-intermediate", "adjustByCPUSet, error path wrote an invalid hierarchy (start %v writes %v)", start, tr.writes)
				}
			}
		}
		close(stop)
		ctl.Finish()
		h.End()
		_ = os.RemoveAll(root)
	}
	h.Close("besteffort dir + 0-3 BE pod dirs x 0-3 container dirs (cgroup v1/v2 with the harness maintaining cpuset.cpus.effective), 6/8/12/16 CPUs (HT pairs adjacent or split, 1-2 NUMA nodes, " +
		"topology re-drawn 1/4 per round), 1/3 node-reserved CPUs, valid start inside the share pool (uniform / static-like / random); 2-5 rounds of the REAL adjustByCPUSet on one executor - the old set is read by the code - " +
		"with the kubelet policy static / none / missing / other strings / unparsable / NodeTopo nil drawn per round, quantity 0..N+1 CPUs (increase cap |root|+ceil(0.1N)), cache fresh or force-expired, " +
		"and 1/3 outside writers setting container cpusets within their pod's between rounds; 1/15 malformed (root outside the pool, child beyond parent); " +
		"non-trivial = full oracle, >1 dir, some file changes; distinct by op lines")
}
