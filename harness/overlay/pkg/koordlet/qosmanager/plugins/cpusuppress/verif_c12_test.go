//go:build verif

package cpusuppress

import (
	"fmt"
	"os"
	"path/filepath"
	"sort"
	"strconv"
	"strings"
	"testing"
	"time"

	corev1 "k8s.io/api/core/v1"

	maframework "github.com/koordinator-sh/koordinator/pkg/koordlet/metricsadvisor/framework"
	"github.com/koordinator-sh/koordinator/pkg/koordlet/qosmanager/framework"
	"github.com/koordinator-sh/koordinator/pkg/koordlet/resourceexecutor"
	koordletutil "github.com/koordinator-sh/koordinator/pkg/koordlet/util"
	"github.com/koordinator-sh/koordinator/pkg/koordlet/util/system"
)

// C12 harness `nonepolicy`: the REAL applyCPUSetWithNonePolicy (with the real
// GetBECPUSetPathsByMaxDepth, writeBECgroupsCPUSet, updater factory and executor) on a temp cgroup root
// holding the besteffort dir, 0-4 BE pod dirs and 0-3 container dirs each.  The executor is wrapped so
// that a batch is handed to the real executor one updater at a time (same order, same code) and all
// cpuset files are inspected after every single updater: a file whose mtime moved was written.
// Observations: write sequence (dir, bitmask) and contents after each call.  CPU sets are bitmasks.

var c12npSentinel = time.Unix(1000000, 0)

func c12npSetStr(mask int64, ranges bool) string {
	var parts []string
	for i := 0; i < 62; i++ {
		if mask&(1<<uint(i)) == 0 {
			continue
		}
		j := i
		if ranges {
			for j+1 < 62 && mask&(1<<uint(j+1)) != 0 {
				j++
			}
		}
		if j > i {
			parts = append(parts, fmt.Sprintf("%d-%d", i, j))
		} else {
			parts = append(parts, strconv.Itoa(i))
		}
		i = j
	}
	return strings.Join(parts, ",")
}

func c12npParseSet(s string) (int64, bool) {
	s = strings.TrimSpace(s)
	if s == "" {
		return 0, true
	}
	var mask int64
	for _, p := range strings.Split(s, ",") {
		b := strings.Split(p, "-")
		lo, err := strconv.Atoi(b[0])
		if err != nil || lo < 0 || lo >= 62 || len(b) > 2 {
			return 0, false
		}
		hi := lo
		if len(b) == 2 {
			if hi, err = strconv.Atoi(b[1]); err != nil || hi < lo || hi >= 62 {
				return 0, false
			}
		}
		for k := lo; k <= hi; k++ {
			mask |= 1 << uint(k)
		}
	}
	return mask, true
}

func c12npSlice(mask int64, r *vRand) []int32 {
	var xs []int32
	for i := 0; i < 62; i++ {
		if mask&(1<<uint(i)) != 0 {
			xs = append(xs, int32(i))
		}
	}
	if r.Bool() { // the order of the slice must not matter
		p := r.Perm(len(xs))
		ys := make([]int32, len(xs))
		for i, j := range p {
			ys[i] = xs[j]
		}
		xs = ys
	}
	return xs
}

func c12npSubset(of int64, r *vRand) int64 {
	v := int64(r.next()) & of
	if v == 0 {
		v = of & -of // lowest bit
	}
	return v
}

func c12npPop(x int64) int {
	n := 0
	for ; x != 0; x &= x - 1 {
		n++
	}
	return n
}

type c12npTree struct {
	h      *vHarness
	parent []int
	name   []string // base name of the dir
	paths  []string // absolute cpuset.cpus path
	vals   []int64
	writes [][2]int64
	check  bool
	bad    bool
	garble bool
}

func (t *c12npTree) valid(v []int64) bool {
	for c, p := range t.parent {
		if p >= 0 && v[c]&^v[p] != 0 {
			return false
		}
	}
	return true
}

func (t *c12npTree) inspect() {
	for i, p := range t.paths {
		st, err := os.Stat(p)
		if err != nil {
			t.h.Obs("gone %d", i)
			t.garble = true
			continue
		}
		if st.ModTime().Equal(c12npSentinel) {
			continue
		}
		b, _ := os.ReadFile(p)
		v, ok := c12npParseSet(string(b))
		if !ok {
			v, t.garble = -3, true
		}
		t.h.Obs("w %d %d", i, v)
		t.writes = append(t.writes, [2]int64{int64(i), v})
		t.vals[i] = v
		_ = os.Chtimes(p, c12npSentinel, c12npSentinel)
		if t.check && !t.garble && !t.valid(t.vals) {
			t.bad = true
		}
	}
}

// c12npStepExec hands every updater of a batch to the real executor on its own and inspects the files.
type c12npStepExec struct {
	inner resourceexecutor.ResourceUpdateExecutor
	t     *c12npTree
}

func (e *c12npStepExec) Update(cacheable bool, u resourceexecutor.ResourceUpdater) (bool, error) {
	ok, err := e.inner.Update(cacheable, u)
	e.t.inspect()
	return ok, err
}
func (e *c12npStepExec) UpdateBatch(cacheable bool, us ...resourceexecutor.ResourceUpdater) {
	for _, u := range us {
		e.inner.UpdateBatch(cacheable, u)
		e.t.inspect()
	}
}
func (e *c12npStepExec) LeveledUpdateBatch(us [][]resourceexecutor.ResourceUpdater) {
	e.inner.LeveledUpdateBatch(us)
	e.t.inspect()
}
func (e *c12npStepExec) Run(stopCh <-chan struct{}) { e.inner.Run(stopCh) }

func TestVerifC12NonePolicy(t *testing.T) {
	h := vOpen("C12")
	if h == nil {
		t.Skip("VERIF_OUT not set")
	}
	oldRoot, oldV2 := system.Conf.CgroupRootDir, system.UseCgroupsV2.Load()
	defer func() { system.Conf.CgroupRootDir = oldRoot; system.UseCgroupsV2.Store(oldV2) }()
	base := t.TempDir()

	n := h.N(2000, 40000)
	for idx := 0; idx < n; idx++ {
		r := h.Begin(idx)
		if r == nil {
			continue
		}
		root := filepath.Join(base, fmt.Sprintf("k%d", idx))
		system.Conf.CgroupRootDir = root
		v2 := r.Chance(1, 3)
		system.UseCgroupsV2.Store(v2)
		beDir := koordletutil.GetRootCgroupCPUSetDir(corev1.PodQOSBestEffort) // absolute besteffort dir

		universe := 6
		if r.Chance(1, 3) {
			universe = 10
		}
		full := int64(1)<<uint(universe) - 1
		tr := &c12npTree{h: h}
		// dirs: 0 = besteffort, then pods and their containers; names chosen so that lexical != creation order
		add := func(parent int, name string) int {
			tr.parent = append(tr.parent, parent)
			tr.name = append(tr.name, name)
			return len(tr.parent) - 1
		}
		add(-1, "")
		dirOf := []string{beDir}
		npods := r.Range(0, 4)
		used := map[string]bool{}
		uniq := func(prefix, suffix string) string {
			for {
				s := fmt.Sprintf("%s%d%s", prefix, r.Range(0, 30), suffix)
				if !used[s] {
					used[s] = true
					return s
				}
			}
		}
		for p := 0; p < npods; p++ {
			pi := add(0, uniq("kubepods-besteffort-pod", ".slice"))
			dirOf = append(dirOf, filepath.Join(beDir, tr.name[pi]))
			for c, nc := 0, r.Range(0, 3); c < nc; c++ {
				ci := add(pi, uniq("cri-containerd-", ".scope"))
				dirOf = append(dirOf, filepath.Join(dirOf[pi], tr.name[ci]))
			}
		}
		nn := len(tr.parent)
		// start: a valid hierarchy; mostly every dir holds the besteffort dir's set
		rootSet := c12npSubset(full, r)
		if r.Chance(1, 3) {
			rootSet = full
		}
		uniform := r.Chance(2, 3)
		tr.vals = make([]int64, nn)
		for i := range tr.vals {
			switch {
			case i == 0:
				tr.vals[i] = rootSet
			case uniform:
				tr.vals[i] = tr.vals[tr.parent[i]]
			default:
				tr.vals[i] = c12npSubset(tr.vals[tr.parent[i]], r)
			}
		}
		malformed := r.Chance(1, 12)
		if malformed && nn > 1 && r.Bool() {
			c := r.Range(1, nn-1)
			tr.vals[c] |= 1 << uint(universe) // a child beyond its parent
		}
		for i := 0; i < nn; i++ {
			p := filepath.Join(dirOf[i], system.CPUSetCPUSName)
			tr.paths = append(tr.paths, p)
			if err := os.MkdirAll(dirOf[i], 0o755); err != nil {
				t.Fatal(err)
			}
			if err := os.WriteFile(p, []byte(c12npSetStr(tr.vals[i], !r.Chance(1, 6))), 0o644); err != nil {
				t.Fatal(err)
			}
			_ = os.Chtimes(p, c12npSentinel, c12npSentinel)
		}
		// walk order computed independently: pre-order, siblings by name
		var order []int64
		var walk func(i int)
		walk = func(i int) {
			order = append(order, int64(i))
			var kids []int
			for c, p := range tr.parent {
				if p == i {
					kids = append(kids, c)
				}
			}
			sort.Slice(kids, func(a, b int) bool { return tr.name[kids[a]] < tr.name[kids[b]] })
			for _, c := range kids {
				walk(c)
			}
		}
		walk(0)
		pi := make([]int64, nn)
		for i, p := range tr.parent {
			pi[i] = int64(p)
		}
		h.Op("be %d %s %s", nn, vInts(pi), vInts(tr.vals))
		h.Tag(fmt.Sprintf("dirs:%d", nn))
		h.Tag(fmt.Sprintf("v2:%d", vB(v2)))

		s := newTestCPUSuppress(&framework.Options{Config: framework.NewDefaultConfig(), MetricAdvisorConfig: maframework.NewDefaultConfig()})
		inner := s.executor.(*resourceexecutor.ResourceUpdateExecutorImpl)
		stop := make(chan struct{})
		inner.Run(stop)
		s.executor = &c12npStepExec{inner: inner, t: tr}

		for call, ncalls := 0, r.Range(1, 3); call < ncalls; call++ {
			start := append([]int64(nil), tr.vals...)
			old := start[0] // the caller passes the besteffort dir's current cpuset
			if malformed && r.Chance(1, 3) {
				old = c12npSubset(full, r)
			}
			var cpus int64
			shape := r.Intn(7)
			switch shape {
			case 0: // grow
				cpus = old | c12npSubset(full, r)
			case 1: // shrink
				cpus = c12npSubset(old, r)
			case 2: // shift: same count, rotated inside the universe
				k := uint(r.Range(1, universe-1))
				cpus = ((old << k) | (old >> (uint(universe) - k))) & full
			case 3: // shift and shrink
				k := uint(r.Range(1, universe-1))
				cpus = c12npSubset(((old<<k)|(old>>(uint(universe)-k)))&full, r)
			case 4: // disjoint if possible
				cpus = c12npSubset(full&^old, r)
				if full&^old == 0 {
					cpus = c12npSubset(full, r)
				}
			case 5: // unchanged
				cpus = old
			default:
				cpus = c12npSubset(full, r)
			}
			if r.Chance(1, 40) {
				cpus = 0 // empty: the code skips
			}
			expired := r.Chance(1, 4)
			inner.Config.ResourceForceUpdateSeconds = 60
			if expired {
				inner.Config.ResourceForceUpdateSeconds = -1
			}
			h.Op("none %d %d %d %d %s", vB(expired), cpus, old, nn, vInts(order))
			kind := "other"
			switch {
			case cpus == old:
				kind = "same"
			case cpus&^old == 0:
				kind = "shrink"
			case old&^cpus == 0:
				kind = "grow"
			case c12npPop(cpus) == c12npPop(old):
				kind = "shift"
			case c12npPop(cpus) < c12npPop(old):
				kind = "shift-shrink"
			default:
				kind = "shift-grow"
			}
			h.Tag("kind:" + kind)

			covered := true
			for _, v := range start {
				if v&^old != 0 {
					covered = false
				}
			}
			tr.writes = tr.writes[:0]
			tr.check = tr.valid(start) && covered
			tr.bad, tr.garble = false, false
			var err error
			if h.Guard(func() { err = s.applyCPUSetWithNonePolicy(c12npSlice(cpus, r), c12npSlice(old, r)) }) {
				h.Obs("panic")
			} else if err != nil {
				h.Obs("err")
			}
			final := make([]int64, nn)
			for i, p := range tr.paths {
				b, _ := os.ReadFile(p)
				v, ok := c12npParseSet(string(b))
				if !ok {
					v = -3
				}
				final[i] = v
			}
			h.Obs("st %s", vInts(final))

			// ---------------- property oracle ----------------
			if tr.check {
				h.Tag("oracle:full")
				if cpus != old && cpus != 0 && nn > 1 {
					h.Nontrivial()
				}
				if tr.bad {
					h.Fail("C12:none-policy-invalid-intermediate", "after some write a BE dir's cpuset is not within its parent's (old %d new %d start %v writes %v)", old, cpus, start, tr.writes)
				}
			} else {
				h.Tag("oracle:final-only")
			}
			if cpus != 0 {
				for i := range final {
					if final[i] != cpus {
						h.Fail("C12:none-policy-final-not-target", "dir %d holds %d, target %d (old %d start %v)", i, final[i], cpus, old, start)
						break
					}
				}
			}
		}
		close(stop)
		h.End()
		_ = os.RemoveAll(root)
	}
	h.Close("besteffort dir + 0-4 BE pod dirs x 0-3 container dirs (cgroup v1/v2), valid start (2/3 uniform), 1-3 applyCPUSetWithNonePolicy calls with the besteffort dir's set as oldCPUSet and a new set that grows/shrinks/shifts/shift-shrinks/is disjoint/unchanged/empty, cache fresh or force-expired; " +
		"1/12 malformed (child beyond parent, foreign oldCPUSet); non-trivial = full oracle, >1 dir, set changes; distinct by op lines")
}
