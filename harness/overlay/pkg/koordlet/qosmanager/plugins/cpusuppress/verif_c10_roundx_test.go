//go:build verif

package cpusuppress

import (
	"fmt"
	"io"
	"os"
	"path/filepath"
	"sort"
	"strconv"
	"strings"
	"testing"
	"time"

	topov1alpha1 "github.com/k8stopologyawareschedwg/noderesourcetopology-api/pkg/apis/topology/v1alpha1"
	"go.uber.org/mock/gomock"
	corev1 "k8s.io/api/core/v1"
	"k8s.io/klog/v2"

	apiext "github.com/koordinator-sh/koordinator/apis/extension"
	slov1alpha1 "github.com/koordinator-sh/koordinator/apis/slo/v1alpha1"
	"github.com/koordinator-sh/koordinator/pkg/features"
	"github.com/koordinator-sh/koordinator/pkg/koordlet/metriccache"
	mockmetriccache "github.com/koordinator-sh/koordinator/pkg/koordlet/metriccache/mockmetriccache"
	"github.com/koordinator-sh/koordinator/pkg/koordlet/resourceexecutor"
	"github.com/koordinator-sh/koordinator/pkg/koordlet/statesinformer"
	mockstatesinformer "github.com/koordinator-sh/koordinator/pkg/koordlet/statesinformer/mockstatesinformer"
	koordletutil "github.com/koordinator-sh/koordinator/pkg/koordlet/util"
	"github.com/koordinator-sh/koordinator/pkg/koordlet/util/system"
)

// C10 "roundx" harness: DIRECTED histories of the real suppressBECPU() on one agent object (one executor with its cache)
// and one cgroup tree of eight cpuset.cpus files + the BE cpu.cfs_quota_us, with everything that can come between two
// rounds: the NodeSLO policy flips (cfsQuota -> cpuset / disabled -> cfsQuota) under an UNCHANGED budget, an outside
// writer resets the quota file or rewrites cpuset files, BE pod / container cgroups whose directory or cpuset.cpus file
// does not exist in one round and appears later holding a wide cpuset, and the executor's force-update interval passing.
// After every round ALL files are read back.  Model: Model/C10Exec.lean (roundStepX with the executor cache).

type c10XF struct {
	dir   string
	level int
	state int // 0 directory missing, 1 directory without cpuset.cpus, 2 file present
}

// c10XEnv: the statement's vocabulary for one node environment, from scratch (same definitions as c10CSOracle).
type c10XEnv struct {
	exist, res, sys map[int]bool
	lseExcl         map[int]bool
	ambiguous       bool
	eligibleN       int
}

func c10NewXEnv(in *c10CSIn) *c10XEnv {
	e := &c10XEnv{exist: map[int]bool{}, res: map[int]bool{}, sys: map[int]bool{}, lseExcl: map[int]bool{}}
	for _, c := range in.ids {
		e.exist[c] = true
	}
	for _, c := range in.reserved {
		e.res[c] = true
	}
	for _, c := range in.sysCPUs {
		e.sys[c] = true
	}
	owners := map[int]map[int]bool{}
	for _, p := range in.pods {
		if p.kind != 0 {
			continue
		}
		for _, c := range p.cpus {
			if owners[c] == nil {
				owners[c] = map[int]bool{}
			}
			owners[c][p.qos] = true
		}
	}
	for c, o := range owners {
		if o[c10QLSE] && len(o) == 1 {
			e.lseExcl[c] = true
		}
		if o[c10QLSE] && len(o) > 1 {
			e.ambiguous = true
		}
	}
	for _, c := range in.ids {
		if !e.res[c] && !e.sys[c] && !e.lseExcl[c] {
			e.eligibleN++
		}
	}
	return e
}

// protected: the "never includes ..." clauses on the content of one BE cgroup file.
func (e *c10XEnv) protected(h *vHarness, where string, set []int) {
	for _, c := range set {
		switch {
		case !e.exist[c]:
			h.Fail("C10:becg-unknown-cpu", "%s: cpu %d in a BE cgroup's cpuset does not exist", where, c)
		case e.res[c]:
			h.Fail("C10:becg-reserved-cpu", "%s: cpu %d is reserved by the node annotation", where, c)
		case e.sys[c]:
			h.Fail("C10:becg-system-cpu", "%s: cpu %d is exclusive to system QoS", where, c)
		case e.lseExcl[c]:
			h.Fail("C10:becg-lse-cpu", "%s: cpu %d is exclusively owned by an LSE pod that is still in the pod list", where, c)
		}
	}
}

func TestVerifC10RoundX(t *testing.T) {
	h := vOpen("C10")
	if h == nil {
		t.Skip("VERIF_OUT not set")
	}
	klog.LogToStderr(false)
	klog.SetOutput(io.Discard)
	cg := c10NewCgroup(t)
	beDir := koordletutil.GetPodQoSRelativePath(corev1.PodQOSBestEffort)
	oldFactory := metriccache.DefaultAggregateResultFactory
	defer func() { metriccache.DefaultAggregateResultFactory = oldFactory }()
	if err := features.DefaultMutableKoordletFeatureGate.SetFromMap(map[string]bool{
		string(features.BECPUManager): false, string(features.BECPUSuppress): true}); err != nil {
		t.Fatal(err)
	}
	n := h.N(1200, 24000)
	for idx := 0; idx < n; idx++ {
		r := h.Begin(idx)
		if r == nil {
			continue
		}
		c10CaseRoundX(t, h, r, cg, beDir, idx)
		h.End()
	}
	h.Close("directed histories of 2-5 suppressBECPU rounds on one agent object (one executor cache) and eight BE cpuset.cpus files + the BE quota file: " +
		"(0) cfsQuota -> cpuset/disabled -> cfsQuota with an unchanged budget, (1) an outside writer resets / rewrites the quota file between two " +
		"equal-target cfsQuota rounds, (2) an outside writer widens / rewrites cpuset files between two equal-target rounds, then the force-update " +
		"interval passes, (3) BE pod / container cgroups whose directory or cpuset.cpus is missing in one round and appears later with a wide " +
		"cpuset (also removed and re-created), (4) random mixes; budgets free or pinned on cpuSuppressMinPercent / on the 2000 minimum quota with " +
		"drifting usage; node environments as in the cpuset cases, every third history one cell of {reservation shape} x {system-QoS shape}; " +
		"every file is read back after every round; non-trivial = a round acts after such an event")
}

func c10CaseRoundX(t *testing.T, h *vHarness, r *vRand, cg *c10Cgroup, beDir string, idx int) {
	var cs *c10CSIn
	for {
		cs = c10GenCPUSet(r)
		if len(cs.ps) > 0 {
			break
		}
	}
	cs.topoNil = false
	if idx%3 == 0 { // systematic stream: every cell of {reservation shape} x {system-QoS shape}
		c10ApplyAnnoCell(h, r, cs, idx/3)
	}
	if cs.kp == 2 { // the malformed kubelet-policy annotation is covered by the other harnesses; here the agent must be able to act
		delete(cs.topoAnno, apiext.AnnotationKubeletCPUManagerPolicy)
		cs.kp = 0
	}
	envTok := cs.envTokens(h)
	csMetas, topo := cs.build(h, r)
	env := c10NewXEnv(cs)
	old := cs.old
	if len(old) == 0 { // an empty root cpuset is covered elsewhere
		old = append([]int(nil), cs.ids...)
	}
	cur := int64(-1)
	switch r.Intn(4) {
	case 0:
		cur = 2000
	case 1:
		cur = int64(r.Range(1, 64)) * 50000
	}
	scenario := r.Intn(5)
	h.Tag(fmt.Sprintf("roundx:scenario-%d", scenario))
	h.Tag("kind:roundx")

	// ---- cgroup tree
	files := []*c10XF{
		{beDir, 0, 2},
		{filepath.Join(beDir, "pod1"), 1, 2}, {filepath.Join(beDir, "pod1", "c1"), 2, 2},
		{filepath.Join(beDir, "pod2"), 1, 2}, {filepath.Join(beDir, "pod2", "c2"), 2, 2}, {filepath.Join(beDir, "pod2", "c3"), 2, 2},
		{filepath.Join(beDir, "pod3"), 1, 0}, {filepath.Join(beDir, "pod3", "c4"), 2, 0},
	}
	pod3Abs := filepath.Dir(system.GetCgroupFilePath(files[6].dir, system.CPUSet))
	os.RemoveAll(pod3Abs)
	defer os.RemoveAll(pod3Abs) // the other harnesses of this package share the cgroup root
	parent := []int{-1, 0, 1, 0, 3, 3, 0, 6}
	setFile := func(k, state int, set []int) {
		f := files[k]
		p := system.GetCgroupFilePath(f.dir, system.CPUSet)
		switch state {
		case 0:
			os.RemoveAll(filepath.Dir(p))
			for c := range files {
				if parent[c] == k {
					files[c].state = 0
				}
			}
		case 1:
			if err := os.MkdirAll(filepath.Dir(p), 0o755); err != nil {
				t.Fatal(err)
			}
			os.Remove(p)
		case 2:
			cg.write(t, f.dir, system.CPUSet, c10SetStr(set, r.Intn(3))+"\n")
		}
		f.state = state
	}
	cg.write(t, koordletutil.GetPodQoSRelativePath(corev1.PodQOSGuaranteed), system.CPUSet, c10SetStr(cs.ids, 0))
	for k := 0; k <= 5; k++ {
		setFile(k, 2, old)
	}
	recreate := scenario == 3 && r.Chance(1, 4) // a BE pod cgroup that is removed and re-created under the same path
	switch {
	case recreate:
		setFile(6, 2, old)
		setFile(7, r.Intn(3), old)
	case scenario == 3:
		setFile(6, r.Intn(2), old)
		if files[6].state != 0 {
			setFile(7, r.Intn(2), old)
		}
	case r.Bool():
		setFile(6, 2, old)
		setFile(7, 2, old)
	}
	cg.write(t, beDir, system.CPUCFSQuota, strconv.FormatInt(cur, 10)+"\n")
	{
		tok := []string{"xinit", strconv.FormatInt(cur, 10), strconv.Itoa(len(files))}
		for _, f := range files {
			tok = append(tok, strconv.Itoa(f.level), strconv.Itoa(f.state))
			if f.state == 2 {
				tok = append(tok, strconv.Itoa(len(old)))
				for _, c := range old {
					tok = append(tok, strconv.Itoa(c))
				}
			} else {
				tok = append(tok, "0")
			}
		}
		h.Op("%s", strings.Join(tok, " "))
	}

	// ---- one agent object for the whole history
	var (
		curMetas []*statesinformer.PodMeta
		curNode  *corev1.Node
		curSLO   *slov1alpha1.NodeSLO
	)
	factory := &c10FakeFactory{vals: map[string]float64{}}
	metriccache.DefaultAggregateResultFactory = factory
	ctrl := gomock.NewController(t)
	si := mockstatesinformer.NewMockStatesInformer(ctrl)
	si.EXPECT().GetAllPods().DoAndReturn(func() []*statesinformer.PodMeta { return curMetas }).AnyTimes()
	si.EXPECT().GetNode().DoAndReturn(func() *corev1.Node { return curNode }).AnyTimes()
	si.EXPECT().GetNodeSLO().DoAndReturn(func() *slov1alpha1.NodeSLO { return curSLO }).AnyTimes()
	si.EXPECT().GetNodeTopo().DoAndReturn(func() *topov1alpha1.NodeResourceTopology { return topo }).AnyTimes()
	mc := mockmetriccache.NewMockMetricCache(ctrl)
	mc.EXPECT().Get(metriccache.NodeCPUInfoKey).Return(&metriccache.NodeCPUInfo{ProcessorInfos: cs.ps}, true).AnyTimes()
	mc.EXPECT().Querier(gomock.Any(), gomock.Any()).Return(c10FakeQuerier{}, nil).AnyTimes()
	s, stop := c10NewSuppress(si)
	s.metricCache = mc
	defer close(stop)

	// ---- reading everything back
	readFile := func(k int) ([]int, bool) {
		f := files[k]
		if f.state != 2 {
			h.Obs("f%d none", k)
			return nil, false
		}
		raw := cg.read(t, f.dir, system.CPUSet)
		set, err := c10ParseFile(raw)
		if err != nil {
			h.Obs("f%d unparsable", k)
			h.Fail("C10:cpuset-unparsable", "cpuset.cpus content %q in %s", raw, f.dir)
			return nil, false
		}
		sl := set.ToSlice()
		h.Obs("%s", strings.TrimSpace(fmt.Sprintf("f%d %s", k, vIntsI(sl))))
		return sl, true
	}
	readQuota := func() (int64, bool) {
		qRaw := cg.read(t, beDir, system.CPUCFSQuota)
		q, err := strconv.ParseInt(strings.TrimSpace(qRaw), 10, 64)
		if err != nil {
			h.Obs("quota unparsable")
			h.Fail("C10:quota-unparsable", "cpu.cfs_quota_us content %q", qRaw)
			return 0, false
		}
		h.Obs("quota %d", q)
		return q, true
	}

	// ---- budget: one base input for the whole history; pinned variants keep the target although the usage drifts
	base := c10GenBudget(r, idx*3)
	pin := 0
	switch r.Intn(6) {
	case 0, 1: // pinned on cpuSuppressMinPercent
		pin = 1
		base.hasMin, base.minPct, base.thr = true, int64(r.Range(5, 40)), int64(r.Range(0, 4))
	case 2: // LS usage above the threshold: negative budget, quota pinned on the 2000 minimum
		pin = 2
		base.hasMin, base.thr = false, 0
	}
	h.Tag(fmt.Sprintf("roundx:pin-%d", pin))

	// oracle bookkeeping: content of every file and the quota as the last reader / writer left it; per file whether the agent
	// already had the file in front of it in an acting round of the current force-update interval (settled) and whether an
	// outside writer changed it since (touched).  settled && touched = the agent's own cache may legitimately hide the file
	// for up to 60 s (cpuset writes are cacheable in the source): tagged, not demanded.
	content := make([][]int, len(files))
	for k := range files {
		if files[k].state == 2 {
			content[k] = append([]int(nil), old...)
		}
	}
	sort.Ints(content[0])
	settled := make([]bool, len(files))
	touched := make([]bool, len(files))
	prevQuota := cur
	eventSinceRound := false
	actedBefore := false

	wide := func() []int {
		w := append([]int(nil), cs.ids...)
		if r.Chance(1, 3) {
			m := map[int]bool{}
			for _, c := range content[0] {
				m[c] = true
			}
			for _, c := range c10Subset(r, cs.ids, 1, 2) {
				m[c] = true
			}
			w = w[:0]
			for c := range m {
				w = append(w, c)
			}
			sort.Ints(w)
		}
		if r.Chance(1, 6) { // any non-empty set, possibly narrower
			if x := c10Subset(r, cs.ids, 1, 2); len(x) > 0 {
				w = x
			}
		}
		return w
	}
	extFile := func(k, state int, set []int) {
		if k == 0 && state != 2 {
			return // the BE root always exists
		}
		if state != 0 && parent[k] > 0 && files[parent[k]].state == 0 {
			return // a container directory needs its pod directory
		}
		setFile(k, state, set)
		tok := []string{"xext", strconv.Itoa(k), strconv.Itoa(state)}
		if state == 2 {
			tok = append(tok, strconv.Itoa(len(set)))
			for _, c := range set {
				tok = append(tok, strconv.Itoa(c))
			}
			content[k] = append([]int(nil), set...)
			sort.Ints(content[k])
		} else {
			tok = append(tok, "0")
			content[k] = nil
		}
		h.Op("%s", strings.Join(tok, " "))
		if state == 0 {
			for c := range files {
				if parent[c] == k {
					h.Op("xext %d 0 0", c)
					content[c] = nil
					touched[c] = true
				}
			}
		}
		touched[k] = true
		eventSinceRound = true
		h.Tag(fmt.Sprintf("roundx:ext-level%d-state%d", files[k].level, state))
	}
	extQuota := func(q int64) {
		cg.write(t, beDir, system.CPUCFSQuota, strconv.FormatInt(q, 10)+"\n")
		h.Op("xextq %d", q)
		prevQuota = q
		eventSinceRound = true
		h.Tag("roundx:ext-quota")
	}
	age := func() {
		ex, ok := s.executor.(*resourceexecutor.ResourceUpdateExecutorImpl)
		if !ok {
			t.Fatal("executor type")
		}
		keys := []string{system.CPUCFSQuota.Path(beDir)}
		for _, f := range files {
			keys = append(keys, system.CPUSet.Path(f.dir))
		}
		for _, k := range keys {
			if v, ok := ex.ResourceCache.Get(k); ok {
				if u, ok := v.(resourceexecutor.ResourceUpdater); ok {
					u.UpdateLastUpdateTimestamp(time.Now().Add(-61 * time.Second))
				}
			}
		}
		h.Op("xage")
		for k := range settled {
			settled[k] = false
		}
		eventSinceRound = true
		h.Tag("roundx:age")
	}

	lastMode := -1
	drift := int64(0)
	// round: mode 0 cpuset, 1 cfsQuota, 2 feature disabled in the NodeSLO; fresh = a new budget input
	round := func(mode int, fresh bool) bool {
		in := base
		in.pods = append([]c10Pod(nil), base.pods...)
		if fresh {
			in = c10GenBudget(r, idx*3+1)
			h.Tag("roundx:fresh-budget")
		} else if pin != 0 {
			drift += int64(r.Range(0, 6))
			in.node8 += drift
		}
		for i := range in.pods {
			in.pods[i].hasMeta = true
		}
		o := c10BuildBudget(h, in)
		curMetas = append(append([]*statesinformer.PodMeta(nil), o.metas...), csMetas...)
		if len(curMetas) == 0 { // the round needs at least one pod to act
			o2 := c10BuildBudget(h, c10BudgetIn{capMilli: in.capMilli, allocMilli: in.allocMilli, pods: []c10Pod{{hasMeta: true, qos: c10QBE, kubeBE: true}}})
			curMetas = o2.metas
		}
		curNode = o.node
		thr := in.thr
		strat := &slov1alpha1.ResourceThresholdStrategy{CPUSuppressThresholdPercent: &thr, CPUSuppressMinPercent: o.minP}
		if mode == 1 {
			strat.CPUSuppressPolicy = slov1alpha1.CPUCfsQuotaPolicy
		} else if r.Bool() {
			strat.CPUSuppressPolicy = slov1alpha1.CPUSetPolicy
		}
		en := mode != 2
		strat.Enable = &en
		curSLO = &slov1alpha1.NodeSLO{Spec: slov1alpha1.NodeSLOSpec{ResourceUsedThresholdWithBE: strat, HostApplications: o.apps}}
		factory.vals = map[string]float64{}
		{
			m, _ := metriccache.NodeCPUUsageMetric.BuildQueryMeta(nil)
			factory.vals[c10MetaKey(m)] = float64(in.node8) / 8
		}
		for uid, v := range o.podMetrics {
			m, _ := metriccache.PodCPUUsageMetric.BuildQueryMeta(metriccache.MetricPropertiesFunc.Pod(uid))
			factory.vals[c10MetaKey(m)] = v
		}
		for name, v := range o.appMetrics {
			m, _ := metriccache.HostAppCPUUsageMetric.BuildQueryMeta(metriccache.MetricPropertiesFunc.HostApplication(name))
			factory.vals[c10MetaKey(m)] = v
		}
		sloKind := 3
		if mode == 2 {
			sloKind = 2
		}
		h.Op("rbudget %s", o.opTokens)
		h.Op("xround %d %d 0 %d 1 0 %s", sloKind, vB(mode == 1), len(curMetas), strings.Join(envTok, " "))
		if h.Guard(func() { s.suppressBECPU() }) {
			h.Obs("panic")
			h.Fail("C10:panic", "suppressBECPU panicked: %v", h.extra["last_panic"])
			return false
		}
		got := make([][]int, len(files))
		okAll := true
		for k := range files {
			set, ok := readFile(k)
			if files[k].state == 2 && !ok {
				okAll = false
			}
			got[k] = set
		}
		gotQ, okQ := readQuota()
		if !okAll || !okQ {
			return false
		}
		h.Tag(fmt.Sprintf("roundx:mode-%d", mode))
		if lastMode >= 0 && lastMode != mode {
			h.Tag("roundx:mode-switch")
		}
		if actedBefore && eventSinceRound || lastMode >= 0 && lastMode != mode {
			h.Nontrivial()
		}
		lastMode = mode

		// ---- oracle
		want, resBinding, _, _, _ := c10BudgetStatement(h, in, o.annoEff)
		c10TagAnnoBinds(h, in, o.annoEff, resBinding, "roundx")
		budgets := []int64{c10BudgetFloor(in, want)}
		if resBinding && c10BudgetFloor(in, want+1) != budgets[0] {
			budgets = append(budgets, c10BudgetFloor(in, want+1))
		}
		exempt := func(k int) bool { return settled[k] && touched[k] }
		oldLen := len(content[0])
		wantN := c10WantCPUs(budgets[0], cs.nCPU, oldLen)
		if len(budgets) > 1 {
			if a := c10WantCPUs(budgets[1], cs.nCPU, oldLen); a > wantN {
				wantN = a
			}
		}
		enough := int64(env.eligibleN) >= wantN
		canSelect := !env.ambiguous && env.eligibleN > 0
		for k, f := range files {
			if f.state != 2 {
				continue
			}
			where := fmt.Sprintf("file %d (level %d) after a mode-%d round", k, f.level, mode)
			if exempt(k) {
				same := len(got[k]) == len(content[k])
				for j := 0; same && j < len(got[k]); j++ {
					same = got[k][j] == content[k][j]
				}
				if same {
					h.Tag("roundx:outside-content-kept-by-cache")
				} else {
					h.Tag("roundx:outside-content-corrected")
				}
				continue
			}
			switch {
			case mode != 0: // the recover path hands every level the unprotected CPUs
				env.protected(h, where, got[k])
			case cs.kp == 1 && f.level <= 1:
				if canSelect {
					env.protected(h, where, got[k])
				}
			default: // the selection: policy none every level, static the container level
				if canSelect && enough {
					env.protected(h, where, got[k])
					if int64(len(got[k])) > wantN {
						h.Fail("C10:becg-over-budget", "%s: %d cpus, the budget allows %d (budget %dm, BE root had %d cpus)", where, len(got[k]), wantN, budgets[0], oldLen)
					}
					if k >= 6 {
						h.Tag("roundx:late-cgroup-checked")
					}
				} else {
					h.Tag("roundx:selection-not-determined")
				}
			}
		}
		switch mode {
		case 0:
			obsK := 0
			if cs.kp == 1 { // the containers carry the selection: the first container-level file that exists
				obsK = -1
				for k, f := range files {
					if f.level == 2 && f.state == 2 {
						obsK = k
						break
					}
				}
			}
			if obsK < 0 {
				h.Tag("roundx:no-container-file")
			} else if !exempt(obsK) && !exempt(0) {
				final, prev := got[obsK], content[obsK]
				changed := func(a, b []int) bool { return fmt.Sprint(a) != fmt.Sprint(b) }
				c10CSOracle(h, cs, budgets, c10CSObs{final: final, written: changed(final, prev), rootSet: got[0], rootChanged: changed(got[0], content[0]),
					childDiffers: files[1].state == 2 && changed(got[1], final) || files[2].state == 2 && changed(got[2], final), oldLen: oldLen})
			}
		case 1:
			cores := c10CeilDiv(in.capMilli, 1000)
			explained := false
			var target int64
			for _, b := range budgets {
				target = b * 100
				if target < 2000 {
					target = 2000
				}
				diff := target - prevQuota
				if diff < 0 {
					diff = -diff
				}
				switch {
				case gotQ == target:
					explained = true
				case gotQ == prevQuota && prevQuota != -1 && diff < cores*1000 && target != 2000:
					explained = true
					h.Tag("roundx:quota-bypass")
				case prevQuota != -1 && target-prevQuota > cores*10000 && gotQ == prevQuota+cores*10000:
					explained = true
					h.Tag("roundx:quota-step")
				}
				if explained {
					break
				}
			}
			if gotQ == -1 {
				h.Fail("C10:quota-stays-unlimited", "quota mode, budget %dm, but cpu.cfs_quota_us stays -1 (unlimited) after the round (it held %d before)", budgets[0], prevQuota)
			} else if !explained {
				h.Fail("C10:quota-value", "quota %d after a quota-mode round; budget %dm x period = %d (min 2000), before the round %d, capacity %d CPUs", gotQ, budgets[0], target, prevQuota, cores)
			} else if gotQ == target {
				h.Tag("roundx:quota-on-target")
			}
		}
		for k, f := range files {
			if f.state == 2 {
				if !exempt(k) {
					touched[k] = false
				}
				settled[k] = true
				content[k] = got[k]
			}
		}
		prevQuota = gotQ
		eventSinceRound = false
		actedBefore = true
		return true
	}

	otherMode := func() int { // what a NodeSLO flip away from cfsQuota looks like
		if r.Chance(1, 3) {
			return 2
		}
		return 0
	}
	switch scenario {
	case 0: // cfsQuota -> cpuset / disabled -> cfsQuota, unchanged budget
		if !round(1, false) || !round(otherMode(), false) || !round(1, false) {
			return
		}
		if r.Bool() {
			if !round(otherMode(), false) {
				return
			}
			round(1, false)
		}
	case 1: // outside reset of the quota file between equal-target quota rounds
		if !round(1, false) {
			return
		}
		for j := r.Range(1, 2); j > 0; j-- {
			if r.Chance(3, 4) {
				extQuota(-1)
			} else {
				extQuota(int64(r.Range(1, 64)) * 50000)
			}
			if !round(1, false) {
				return
			}
		}
	case 2: // outside rewrite of cpuset files between equal-target rounds, then the force-update interval
		m := r.Intn(3)
		if m == 2 && r.Bool() {
			m = 0
		}
		if !round(m, false) {
			return
		}
		w := wide()
		for k := range files {
			if files[k].state == 2 && r.Chance(1, 2+vB(k == 0)) {
				extFile(k, 2, w)
			}
		}
		if !round(m, false) {
			return
		}
		if r.Chance(2, 3) {
			age()
			if !round(m, false) {
				return
			}
		}
	case 3: // late BE cgroups
		m := 0
		if r.Chance(1, 3) {
			m = r.Range(1, 2)
		}
		if recreate {
			if !round(m, false) {
				return
			}
			extFile(6, r.Intn(2), nil)
		}
		if !round(m, false) {
			return
		}
		w := wide()
		if files[6].state != 2 {
			extFile(6, 2, w)
		}
		if r.Chance(2, 3) && files[7].state != 2 {
			extFile(7, 2, w)
		}
		if !round(m, false) {
			return
		}
		if r.Bool() {
			if files[7].state != 2 {
				extFile(7, 2, wide())
			}
			round(m, false)
		}
	default: // random mix
		for j := r.Range(3, 5); j > 0; j-- {
			m := r.Intn(3)
			if m == 2 && r.Bool() {
				m = lastMode
				if m < 0 {
					m = 1
				}
			}
			if !round(m, r.Chance(1, 5)) {
				return
			}
			switch r.Intn(6) {
			case 0:
				extQuota(r.Pick([]int64{-1, -1, 2000, 400000}))
			case 1:
				extFile(r.Intn(len(files)), 2, wide())
			case 2:
				extFile(r.Range(1, len(files)-1), r.Intn(2), nil)
			case 3:
				age()
			}
		}
	}
}

// TestVerifC10Exec: EXHAUSTIVE small scope for the executor model (Model/C10Exec.lean `execWrite`, `needUpdate`, `XFile.age`):
// one cpuset.cpus file, two start states (present / missing), every sequence of at most 3 (quick) / 5 (thorough) events
// out of: cacheable write of A / of B, direct write of A / of B, outside write of A / of B, the file vanishes, the
// force-update interval passes — against the real ResourceUpdateExecutorImpl.Update with updaters of the default cgroup
// updater factory; the file is read back after every executor call.
func TestVerifC10Exec(t *testing.T) {
	h := vOpen("C10")
	if h == nil {
		t.Skip("VERIF_OUT not set")
	}
	klog.LogToStderr(false)
	klog.SetOutput(io.Discard)
	cg := c10NewCgroup(t)
	maxLen := h.N(3, 5)
	setA, setB := []int{0, 1}, []int{0, 1, 2, 3}
	const nEv = 8
	idx := 0
	for start := 0; start < 2; start++ {
		for length := 1; length <= maxLen; length++ {
			total := 1
			for j := 0; j < length; j++ {
				total *= nEv
			}
			for code := 0; code < total; code++ {
				r := h.Begin(idx)
				caseIdx := idx
				idx++
				if r == nil {
					continue
				}
				c10CaseExec(t, h, cg, caseIdx, start, length, code, setA, setB)
				h.End()
			}
		}
	}
	h.Close("exhaustive: one cgroup file, start present / missing, every event sequence of length <= 3 (quick) / <= 5 (thorough) over {cacheable write A/B, " +
		"direct write A/B, outside write A/B, file removed, force-update interval passes}; non-trivial = some executor call finds the file present")
}

func c10CaseExec(t *testing.T, h *vHarness, cg *c10Cgroup, caseIdx, start, length, code int, setA, setB []int) {
	dir := filepath.Join("verifx", fmt.Sprintf("s%dl%dc%d", start, length, code))
	path := system.GetCgroupFilePath(dir, system.CPUSet)
	if err := os.MkdirAll(filepath.Dir(path), 0o755); err != nil {
		t.Fatal(err)
	}
	defer os.RemoveAll(filepath.Dir(path))
	ex := resourceexecutor.NewTestResourceExecutor().(*resourceexecutor.ResourceUpdateExecutorImpl)
	stop := make(chan struct{})
	ex.Run(stop)
	defer close(stop)
	h.Tag("kind:exec")
	present := start == 0
	var content []int
	if present {
		cg.write(t, dir, system.CPUSet, c10SetStr(setB, 0)+"\n")
		content = setB
		h.Op("xfinit 2 %d %s", len(setB), vIntsI(setB))
	} else {
		os.Remove(path)
		h.Op("xfinit 0 0")
	}
	outsideSince := false
	for j := 0; j < length; j++ {
		ev := code % 8
		code /= 8
		val := setA
		if ev%2 == 1 {
			val = setB
		}
		switch {
		case ev < 4: // executor call
			cacheable := ev < 2
			u, err := resourceexecutor.DefaultCgroupUpdaterFactory.New(system.CPUSetCPUSName, dir, c10SetStr(val, 0), nil)
			if err != nil {
				t.Fatal(err)
			}
			h.Op("xfw %d %d %s", vB(cacheable), len(val), vIntsI(val))
			var uerr error
			if h.Guard(func() { _, uerr = ex.Update(cacheable, u) }) {
				h.Obs("panic")
				h.Fail("C10:panic", "executor Update panicked")
				return
			}
			if uerr != nil {
				h.Obs("xf error")
				h.Fail("C10:exec-error", "Update(%v) on a %v file returned %v", cacheable, present, uerr)
				return
			}
			if !present {
				h.Obs("xf none")
				if _, err := os.Stat(path); err == nil {
					h.Fail("C10:exec-created-file", "a write to a missing cgroup file created it")
				}
				continue
			}
			h.Nontrivial()
			raw := cg.read(t, dir, system.CPUSet)
			set, err := c10ParseFile(strings.TrimSpace(raw))
			if err != nil {
				h.Obs("xf unparsable")
				h.Fail("C10:cpuset-unparsable", "cpuset.cpus content %q", raw)
				return
			}
			got := set.ToSlice()
			h.Obs("%s", strings.TrimSpace("xf "+vIntsI(got)))
			same := func(a, b []int) bool { return fmt.Sprint(a) == fmt.Sprint(b) }
			// oracle: a direct write always lands; a cacheable one lands unless an outside writer (or a direct write) touched the file since the
			// executor's last cacheable call within the interval (then either the old or the new content is what the source's design allows)
			if !cacheable && !same(got, val) {
				h.Fail("C10:exec-direct-write-lost", "direct Update to %v left %v in the file", val, got)
			}
			if cacheable && !outsideSince && !same(got, val) {
				h.Fail("C10:exec-cacheable-write-lost", "cacheable Update to %v left %v in a file nobody else touched", val, got)
			}
			if cacheable && !same(got, val) && !same(got, content) {
				h.Fail("C10:exec-cacheable-write-lost", "cacheable Update to %v turned %v into %v", val, content, got)
			}
			content = got
			if !cacheable {
				outsideSince = true // a direct write does not tell the cache either (cpusuppress never mixes the two on one file: tie_exec_shape)
			} else if same(got, val) {
				outsideSince = false
			}
		case ev < 6: // outside write (creates the file when it is missing)
			cg.write(t, dir, system.CPUSet, c10SetStr(val, 1)+"\n")
			present, content, outsideSince = true, val, true
			h.Op("xfext 2 %d %s", len(val), vIntsI(val))
		case ev == 6:
			os.Remove(path)
			present, content, outsideSince = false, nil, true
			h.Op("xfext 0 0")
		default:
			if v, ok := ex.ResourceCache.Get(system.CPUSet.Path(dir)); ok {
				if u, ok := v.(resourceexecutor.ResourceUpdater); ok {
					u.UpdateLastUpdateTimestamp(time.Now().Add(-61 * time.Second))
				}
			}
			outsideSince = false // every entry is stale now: the next cacheable write must land
			h.Op("xfage")
		}
	}
}
