//go:build verif

package cpusuppress

import (
	"fmt"
	"os"
	"path/filepath"
	"sort"
	"testing"

	topov1alpha1 "github.com/k8stopologyawareschedwg/noderesourcetopology-api/pkg/apis/topology/v1alpha1"
	"go.uber.org/mock/gomock"
	corev1 "k8s.io/api/core/v1"

	apiext "github.com/koordinator-sh/koordinator/apis/extension"
	"github.com/koordinator-sh/koordinator/pkg/koordlet/metriccache"
	mockmetriccache "github.com/koordinator-sh/koordinator/pkg/koordlet/metriccache/mockmetriccache"
	maframework "github.com/koordinator-sh/koordinator/pkg/koordlet/metricsadvisor/framework"
	"github.com/koordinator-sh/koordinator/pkg/koordlet/qosmanager/framework"
	"github.com/koordinator-sh/koordinator/pkg/koordlet/resourceexecutor"
	"github.com/koordinator-sh/koordinator/pkg/koordlet/statesinformer"
	mockstatesinformer "github.com/koordinator-sh/koordinator/pkg/koordlet/statesinformer/mockstatesinformer"
	koordletutil "github.com/koordinator-sh/koordinator/pkg/koordlet/util"
	"github.com/koordinator-sh/koordinator/pkg/koordlet/util/system"
)

// C12 harness `suppress`: the REAL applyBESuppressCPUSet (policy dispatch on the node-topology annotation,
// recoverCPUSetIfNeed + calcBECPUSet, applyCPUSetWithStaticPolicy, applyCPUSetWithNonePolicy, the real path
// walkers, updater factory and executor) on a temp cgroup root, over multi-round histories that switch the
// kubelet cpu-manager policy between rounds (static / none / annotation missing / other string / unparsable /
// NodeTopo nil / NodeCPUInfo missing).  One executor (one ResourceCache) per history.  All cpuset files are
// inspected after every single updater (c12npStepExec of verif_c12_test.go).
//
// op line:  sup <kind> <expired> <cpus> <oldCPUSet> <rec> <m> <walk order>      (see Driver/C12.lean)

const (
	c12spTopoNil = iota
	c12spBadAnno
	c12spStatic
	c12spNone
)

func TestVerifC12Suppress(t *testing.T) {
	h := vOpen("C12")
	if h == nil {
		t.Skip("VERIF_OUT not set")
	}
	oldRoot, oldV2 := system.Conf.CgroupRootDir, system.UseCgroupsV2.Load()
	defer func() { system.Conf.CgroupRootDir = oldRoot; system.UseCgroupsV2.Store(oldV2) }()
	base := t.TempDir()

	n := h.N(2000, 40000)
	for idx := 0; idx < n; idx++ {
		r := h.Begin(idx)
		if r == nil {
			continue
		}
		root := filepath.Join(base, fmt.Sprintf("s%d", idx))
		system.Conf.CgroupRootDir = root
		v2 := r.Chance(1, 3)
		system.UseCgroupsV2.Store(v2)
		beDir := koordletutil.GetRootCgroupCPUSetDir(corev1.PodQOSBestEffort)

		universe := 6
		if r.Chance(1, 3) {
			universe = 10
		}
		full := int64(1)<<uint(universe) - 1
		// BE share pool = all CPUs minus the CPUs reserved by the node annotation
		var reserved int64
		if r.Chance(1, 3) {
			reserved = int64(r.next()) & full
			if reserved == full {
				reserved = 1
			}
		}
		pool := full &^ reserved

		tr := &c12npTree{h: h}
		add := func(parent int, name string) int {
			tr.parent = append(tr.parent, parent)
			tr.name = append(tr.name, name)
			return len(tr.parent) - 1
		}
		add(-1, "")
		dirOf := []string{beDir}
		depth := []int{0}
		used := map[string]bool{}
		uniq := func(prefix, suffix string) string {
			for {
				s := fmt.Sprintf("%s%d%s", prefix, r.Range(0, 30), suffix)
				if !used[s] {
					used[s] = true
					return s
				}
			}
		}
		for p, npods := 0, r.Range(0, 4); p < npods; p++ {
			pi := add(0, uniq("kubepods-besteffort-pod", ".slice"))
			dirOf = append(dirOf, filepath.Join(beDir, tr.name[pi]))
			depth = append(depth, 1)
			for c, nc := 0, r.Range(0, 3); c < nc; c++ {
				ci := add(pi, uniq("cri-containerd-", ".scope"))
				dirOf = append(dirOf, filepath.Join(dirOf[pi], tr.name[ci]))
				depth = append(depth, 2)
			}
		}
		nn := len(tr.parent)
		// start: a valid hierarchy inside the share pool; mostly uniform (what a none-policy round leaves)
		// or pods on the pool and containers on a subset (what a static-policy round leaves)
		startShape := r.Intn(4)
		rootSet := pool
		if startShape != 1 && pool != 0 {
			rootSet = c12npSubset(pool, r)
		}
		malformed := r.Chance(1, 12)
		if malformed && r.Bool() {
			rootSet = c12npSubset(full, r) // may leave the pool
		}
		tr.vals = make([]int64, nn)
		ctrSet := rootSet
		if rootSet != 0 {
			ctrSet = c12npSubset(rootSet, r)
		}
		for i := range tr.vals {
			switch {
			case i == 0:
				tr.vals[i] = rootSet
			case startShape == 0 || tr.vals[tr.parent[i]] == 0: // uniform
				tr.vals[i] = tr.vals[tr.parent[i]]
			case startShape == 1: // static-like
				if depth[i] == 1 {
					tr.vals[i] = rootSet
				} else {
					tr.vals[i] = ctrSet
				}
			default:
				tr.vals[i] = c12npSubset(tr.vals[tr.parent[i]], r)
			}
		}
		if malformed && nn > 1 && r.Chance(1, 3) {
			c := r.Range(1, nn-1)
			tr.vals[c] |= 1 << uint(universe) // a child beyond its parent
		}
		for i := 0; i < nn; i++ {
			p := filepath.Join(dirOf[i], system.CPUSetCPUSName)
			tr.paths = append(tr.paths, p)
			if err := os.MkdirAll(dirOf[i], 0o755); err != nil {
				t.Fatal(err)
			}
			if err := os.WriteFile(p, []byte(c12npSetStr(tr.vals[i], !r.Chance(1, 6))), 0o644); err != nil {
				t.Fatal(err)
			}
			_ = os.Chtimes(p, c12npSentinel, c12npSentinel)
		}
		// walk order computed independently: pre-order, siblings by name
		var order []int64
		var walk func(i int)
		walk = func(i int) {
			order = append(order, int64(i))
			var kids []int
			for c, p := range tr.parent {
				if p == i {
					kids = append(kids, c)
				}
			}
			sort.Slice(kids, func(a, b int) bool { return tr.name[kids[a]] < tr.name[kids[b]] })
			for _, c := range kids {
				walk(c)
			}
		}
		walk(0)
		pi := make([]int64, nn)
		for i, p := range tr.parent {
			pi[i] = int64(p)
		}
		h.Op("be %d %s %s", nn, vInts(pi), vInts(tr.vals))
		h.Tag(fmt.Sprintf("dirs:%d", nn))
		h.Tag(fmt.Sprintf("v2:%d", vB(v2)))

		// environment of the strategy: node topology (annotations) and NodeCPUInfo, switchable per round
		var curTopo *topov1alpha1.NodeResourceTopology
		cpuInfoOK := true
		cpuInfo := &metriccache.NodeCPUInfo{}
		for _, id := range r.Perm(universe) {
			cpuInfo.ProcessorInfos = append(cpuInfo.ProcessorInfos, koordletutil.ProcessorInfo{CPUID: int32(id), CoreID: int32(id / 2)})
		}
		ctl := gomock.NewController(t)
		si := mockstatesinformer.NewMockStatesInformer(ctl)
		si.EXPECT().GetNodeTopo().DoAndReturn(func() *topov1alpha1.NodeResourceTopology { return curTopo }).AnyTimes()
		si.EXPECT().GetAllPods().Return([]*statesinformer.PodMeta{}).AnyTimes()
		mc := mockmetriccache.NewMockMetricCache(ctl)
		mc.EXPECT().Get(metriccache.NodeCPUInfoKey).DoAndReturn(func(string) (interface{}, bool) {
			if !cpuInfoOK {
				return nil, false
			}
			return cpuInfo, true
		}).AnyTimes()

		s := newTestCPUSuppress(&framework.Options{StatesInformer: si, MetricCache: mc,
			Config: framework.NewDefaultConfig(), MetricAdvisorConfig: maframework.NewDefaultConfig()})
		inner := s.executor.(*resourceexecutor.ResourceUpdateExecutorImpl)
		stop := make(chan struct{})
		inner.Run(stop)
		s.executor = &c12npStepExec{inner: inner, t: tr}

		prevKind := -1
		for call, ncalls := 0, r.Range(1, 4); call < ncalls; call++ {
			start := append([]int64(nil), tr.vals...)
			old := start[0] // the caller (adjustByCPUSet) passes the besteffort dir's current cpuset
			if malformed && r.Chance(1, 3) {
				old = c12npSubset(full, r)
			}
			// --- policy of this round ---
			kind := c12spStatic
			if r.Bool() {
				kind = c12spNone
			}
			if r.Chance(1, 30) {
				kind = c12spBadAnno
			} else if r.Chance(1, 40) {
				kind = c12spTopoNil
			}
			anno := map[string]string{}
			if reserved != 0 {
				anno[apiext.AnnotationNodeReservation] = fmt.Sprintf(`{"reservedCPUs":%q}`, c12npSetStr(reserved, r.Bool()))
			}
			polTag := ""
			switch kind {
			case c12spStatic:
				anno[apiext.AnnotationKubeletCPUManagerPolicy] = []string{
					`{"policy":"static"}`, `{"policy":"static","options":{"full-pcpus-only":"true"}}`,
					`{"policy":"static","reservedCPUs":"0"}`}[r.Intn(3)]
				polTag = "static"
			case c12spNone:
				switch r.Intn(5) {
				case 0: // annotation missing
					polTag = "missing"
				case 1:
					anno[apiext.AnnotationKubeletCPUManagerPolicy] = `{}`
					polTag = "empty"
				case 2:
					anno[apiext.AnnotationKubeletCPUManagerPolicy] = []string{`{"policy":"Static"}`, `{"policy":"static "}`, `{"policy":"dynamic"}`}[r.Intn(3)]
					polTag = "other-string"
				default:
					anno[apiext.AnnotationKubeletCPUManagerPolicy] = `{"policy":"none"}`
					polTag = "none"
				}
			case c12spBadAnno:
				anno[apiext.AnnotationKubeletCPUManagerPolicy] = []string{`static`, `{"policy":`, `{"policy":1}`, ``}[r.Intn(4)]
				polTag = "unparsable"
			}
			curTopo = &topov1alpha1.NodeResourceTopology{}
			curTopo.Annotations = anno
			if kind == c12spTopoNil {
				curTopo = nil
				polTag = "topo-nil"
			}
			cpuInfoOK = !r.Chance(1, 40)
			rec := pool
			if !cpuInfoOK {
				rec = -1
			}
			h.Tag("policy:" + polTag)
			if prevKind >= 0 {
				h.Tag(fmt.Sprintf("switch:%d->%d", prevKind, kind))
			}
			prevKind = kind

			// --- the new suppressed set ---
			var cpus int64
			within := pool
			if malformed && r.Chance(1, 3) {
				within = full
			}
			shape := r.Intn(7)
			rot := func(x int64) int64 {
				k := uint(r.Range(1, universe-1))
				return ((x << k) | (x >> (uint(universe) - k))) & full
			}
			switch shape {
			case 0: // grow
				cpus = (old | c12npSubset(full, r)) & within
			case 1: // shrink
				cpus = c12npSubset(old, r) & within
			case 2: // shift
				cpus = rot(old) & within
			case 3: // shift and shrink
				cpus = c12npSubset(rot(old), r) & within
			case 4: // disjoint if possible
				cpus = c12npSubset(full&^old, r) & within
			case 5: // unchanged
				cpus = old
			default:
				cpus = c12npSubset(within, r)
			}
			if cpus == 0 && within != 0 && !r.Chance(1, 20) {
				cpus = c12npSubset(within, r)
			}
			if r.Chance(1, 40) {
				cpus = 0 // empty: both branches skip the container / BE write
			}
			expired := r.Chance(1, 4)
			inner.Config.ResourceForceUpdateSeconds = 60
			if expired {
				inner.Config.ResourceForceUpdateSeconds = -1
			}
			h.Op("sup %d %d %d %d %d %d %s", kind, vB(expired), cpus, old, rec, nn, vInts(order))

			startValid := tr.valid(start)
			inOld, inPool := true, true
			for _, v := range start {
				if v&^old != 0 {
					inOld = false
				}
				if v&^pool != 0 {
					inPool = false
				}
			}
			tr.writes = tr.writes[:0]
			tr.bad, tr.garble = false, false
			switch kind {
			case c12spStatic:
				// hypotheses of static_policy_every_prefix_valid, re-evaluated here on every input
				tr.check = startValid && inPool && cpus&^pool == 0 && cpuInfoOK
			case c12spNone:
				tr.check = startValid && inOld
			default:
				tr.check = startValid
			}
			var err error
			if h.Guard(func() { err = s.applyBESuppressCPUSet(c12npSlice(cpus, r), c12npSlice(old, r)) }) {
				h.Obs("panic")
			} else if err != nil {
				h.Obs("err")
			}
			final := make([]int64, nn)
			for i, p := range tr.paths {
				b, _ := os.ReadFile(p)
				v, ok := c12npParseSet(string(b))
				if !ok {
					v = -3
				}
				final[i] = v
			}
			h.Obs("st %s", vInts(final))
			h.Tag(fmt.Sprintf("writes:%d", len(tr.writes)))

			// ---------------- property oracle ----------------
			changes := false
			for i := range final {
				if final[i] != start[i] {
					changes = true
				}
			}
			if tr.check {
				h.Tag(fmt.Sprintf("oracle:full:kind%d", kind))
				if changes && nn > 1 {
					h.Nontrivial()
				}
			} else {
				h.Tag(fmt.Sprintf("oracle:final-only:kind%d", kind))
			}
			switch kind {
			case c12spStatic:
				if tr.check && tr.bad {
					h.Fail("C12:static-policy-invalid-intermediate", "static policy: after some write a BE dir's cpuset is not within its parent's (pool %d new %d start %v writes %v)", pool, cpus, start, tr.writes)
				}
				if cpuInfoOK {
					for i := range final {
						want := start[i]
						if depth[i] <= 1 {
							want = pool // besteffort dir and pod dirs: recovered to the share pool
						} else if cpus != 0 {
							want = cpus // containers: the suppressed set
						}
						if final[i] != want {
							h.Fail("C12:static-policy-final-wrong", "static policy: dir %d (depth %d) holds %d, want %d (pool %d new %d start %v)", i, depth[i], final[i], want, pool, cpus, start)
							break
						}
					}
				}
			case c12spNone:
				if tr.check && tr.bad {
					h.Fail("C12:none-policy-invalid-intermediate", "after some write a BE dir's cpuset is not within its parent's (old %d new %d start %v writes %v)", old, cpus, start, tr.writes)
				}
				if cpus != 0 {
					for i := range final {
						if final[i] != cpus {
							h.Fail("C12:none-policy-final-not-target", "dir %d holds %d, target %d (old %d start %v)", i, final[i], cpus, old, start)
							break
						}
					}
				}
			default:
				// error before any write: nothing may change (crash-point validity is then the start's)
				if tr.check && tr.bad {
					h.Fail("C12:static-policy-invalid-intermediate", "error path wrote an invalid hierarchy (start %v writes %v)", start, tr.writes)
				}
			}
		}
		close(stop)
		ctl.Finish()
		h.End()
		_ = os.RemoveAll(root)
	}
	h.Close("besteffort dir + 0-4 BE pod dirs x 0-3 container dirs (cgroup v1/v2), CPU universe 6/10 with 1/3 node-reserved CPUs (share pool = rest), valid start inside the pool (uniform / static-like / random), " +
		"1-4 applyBESuppressCPUSet rounds on one executor, each with its own node-topology annotation: policy static (3 JSON shapes) / none / missing / {} / other strings / unparsable / NodeTopo nil, NodeCPUInfo missing 1/40, " +
		"new set grows/shrinks/shifts/disjoint/unchanged/empty inside the pool, cache fresh or force-expired; 1/12 malformed (start or new set outside the pool, child beyond parent, foreign oldCPUSet); " +
		"non-trivial = full oracle (theorem hypotheses hold), >1 dir, some file changes; distinct by op lines")
}
