//go:build verif

package cpusuppress

import (
	"encoding/json"
	"fmt"
	"io"
	"math"
	"os"
	"path/filepath"
	"sort"
	"strconv"
	"strings"
	"testing"

	topov1alpha1 "github.com/k8stopologyawareschedwg/noderesourcetopology-api/pkg/apis/topology/v1alpha1"
	"go.uber.org/mock/gomock"
	corev1 "k8s.io/api/core/v1"
	"k8s.io/apimachinery/pkg/api/resource"
	metav1 "k8s.io/apimachinery/pkg/apis/meta/v1"
	"k8s.io/apimachinery/pkg/types"
	"k8s.io/klog/v2"

	apiext "github.com/koordinator-sh/koordinator/apis/extension"
	slov1alpha1 "github.com/koordinator-sh/koordinator/apis/slo/v1alpha1"
	"github.com/koordinator-sh/koordinator/pkg/koordlet/metriccache"
	mockmetriccache "github.com/koordinator-sh/koordinator/pkg/koordlet/metriccache/mockmetriccache"
	maframework "github.com/koordinator-sh/koordinator/pkg/koordlet/metricsadvisor/framework"
	"github.com/koordinator-sh/koordinator/pkg/koordlet/qosmanager/framework"
	"github.com/koordinator-sh/koordinator/pkg/koordlet/statesinformer"
	mockstatesinformer "github.com/koordinator-sh/koordinator/pkg/koordlet/statesinformer/mockstatesinformer"
	koordletutil "github.com/koordinator-sh/koordinator/pkg/koordlet/util"
	"github.com/koordinator-sh/koordinator/pkg/koordlet/util/system"
)

// C10 harness.  Four kinds of cases, each calling the REAL code:
//   budget  -> calculateBESuppressCPU           (plus a paired call with one non-BE consumption bumped)
//   policy  -> calculateBESuppressCPUSetPolicy  (TestVerifC10Exhaustive: every small topology / pool / k, thorough tier)
//   cpuset  -> adjustByCPUSet (kubelet policy none and static) and calcBECPUSet through a mock statesinformer and a temp cgroup root
//   quota   -> adjustByCfsQuota through a temp cgroup root (cgroup v1 and v2 file formats)
// verif_c10_round_test.go adds whole suppressBECPU rounds (TestVerifC10Round).
// Ops are the integer projection of the inputs, observations the canonical outputs.  The oracle
// below re-evaluates the property statement from scratch with integer arithmetic only.

const (
	c10QNone = 0
	c10QLSE  = 1
	c10QLSR  = 2
	c10QLS   = 3
	c10QBE   = 4
	c10QSys  = 5
)

var c10QoSNames = []string{"", "LSE", "LSR", "LS", "BE", "SYSTEM"}

// ---------------------------------------------------------------- topology generator

func c10Topo(r *vRand) []koordletutil.ProcessorInfo {
	sockets := r.Range(1, 2)
	nodesPer := 1
	if r.Chance(1, 3) {
		nodesPer = 2
	}
	cores := r.Range(1, 4)
	if r.Chance(1, 10) {
		cores = r.Range(5, 8)
	}
	threads := 2
	switch r.Intn(8) {
	case 0:
		threads = 1
	case 1:
		threads = 4
	case 2:
		threads = 3
	}
	siblingStyle := r.Bool()    // cpu ids: adjacent siblings vs linux style (i, i+N/threads, ...)
	coreRestart := r.Chance(1, 3) // core ids restart in every socket
	total := sockets * nodesPer * cores * threads
	nCores := total / threads
	var ps []koordletutil.ProcessorInfo
	coreGlobal := 0
	for s := 0; s < sockets; s++ {
		for nd := 0; nd < nodesPer; nd++ {
			for c := 0; c < cores; c++ {
				coreID := coreGlobal
				if coreRestart {
					coreID = nd*cores + c
				}
				for th := 0; th < threads; th++ {
					cpu := coreGlobal*threads + th
					if !siblingStyle {
						cpu = th*nCores + coreGlobal
					}
					ps = append(ps, koordletutil.ProcessorInfo{CPUID: int32(cpu), CoreID: int32(coreID),
						SocketID: int32(s), NodeID: int32(s*nodesPer + nd)})
				}
				coreGlobal++
			}
		}
	}
	// linux lists processors by cpu id
	sort.Slice(ps, func(i, j int) bool { return ps[i].CPUID < ps[j].CPUID })
	if r.Chance(1, 6) { // offline cpus => irregular buckets, odd sibling groups
		var q []koordletutil.ProcessorInfo
		for _, p := range ps {
			if !r.Chance(1, 4) {
				q = append(q, p)
			}
		}
		ps = q
	}
	if r.Chance(1, 8) { // arbitrary list order
		perm := r.Perm(len(ps))
		q := make([]koordletutil.ProcessorInfo, len(ps))
		for i, j := range perm {
			q[i] = ps[j]
		}
		ps = q
	}
	if r.Chance(1, 12) { // odd numa ids (bucket-key collisions (node+n)*(socket+1))
		for i := range ps {
			ps[i].NodeID = int32(r.Intn(3) * len(ps))
		}
	}
	return ps
}

func c10ProcTokens(ps []koordletutil.ProcessorInfo) string {
	xs := make([]int64, 0, 4*len(ps))
	for _, p := range ps {
		xs = append(xs, int64(p.CPUID), int64(p.CoreID), int64(p.SocketID), int64(p.NodeID))
	}
	return strings.TrimSpace(fmt.Sprintf("%d %s", len(ps), vInts(xs)))
}

func c10SetStr(cpus []int, style int) string {
	// style 0: canonical ranges, 1: comma list, 2: descending comma list
	if len(cpus) == 0 {
		return ""
	}
	s := append([]int(nil), cpus...)
	sort.Ints(s)
	switch style {
	case 0:
		var parts []string
		for i := 0; i < len(s); {
			j := i
			for j+1 < len(s) && s[j+1] <= s[j]+1 {
				j++
			}
			if s[j] > s[i] {
				parts = append(parts, fmt.Sprintf("%d-%d", s[i], s[j]))
			} else {
				parts = append(parts, strconv.Itoa(s[i]))
			}
			i = j + 1
		}
		return strings.Join(parts, ",")
	case 1:
		ss := make([]string, len(s))
		for i, c := range s {
			ss[i] = strconv.Itoa(c)
		}
		return strings.Join(ss, ",")
	default:
		ss := make([]string, len(s))
		for i, c := range s {
			ss[len(s)-1-i] = strconv.Itoa(c)
		}
		return strings.Join(ss, ",")
	}
}

func c10Subset(r *vRand, ids []int, num, den int) []int {
	var out []int
	for _, c := range ids {
		if r.Chance(num, den) {
			out = append(out, c)
		}
	}
	return out
}

func c10CeilDiv(a, b int64) int64 { // b > 0, mathematical ceiling
	q := a / b
	if a%b != 0 && a > 0 {
		q++
	}
	return q
}

// ---------------------------------------------------------------- cgroup fixture (no FileTestUtil: it forces TMPDIR=/tmp)

type c10Cgroup struct {
	root string
}

func c10NewCgroup(t *testing.T) *c10Cgroup {
	dir := t.TempDir()
	old := system.Conf.CgroupRootDir
	oldV2 := system.UseCgroupsV2.Load()
	system.Conf.CgroupRootDir = dir
	system.UseCgroupsV2.Store(false)
	t.Cleanup(func() {
		system.Conf.CgroupRootDir = old
		system.UseCgroupsV2.Store(oldV2)
	})
	return &c10Cgroup{root: dir}
}

func (c *c10Cgroup) write(t *testing.T, dir string, r system.Resource, content string) {
	p := system.GetCgroupFilePath(dir, r)
	if err := os.MkdirAll(filepath.Dir(p), 0o755); err != nil {
		t.Fatal(err)
	}
	if err := os.WriteFile(p, []byte(content), 0o644); err != nil {
		t.Fatal(err)
	}
}

func (c *c10Cgroup) read(t *testing.T, dir string, r system.Resource) string {
	b, err := os.ReadFile(system.GetCgroupFilePath(dir, r))
	if err != nil {
		t.Fatal(err)
	}
	return string(b)
}

func c10NewSuppress(si statesinformer.StatesInformer) (*CPUSuppress, chan struct{}) {
	opt := &framework.Options{
		StatesInformer:      si,
		Config:              framework.NewDefaultConfig(),
		MetricAdvisorConfig: maframework.NewDefaultConfig(),
	}
	s := newTestCPUSuppress(opt)
	stop := make(chan struct{})
	s.init(stop)
	return s, stop
}

// ---------------------------------------------------------------- budget

type c10Pod struct {
	hasMeta, hasMetric bool
	qos                int
	kubeBE             bool
	used8              int64 // usage in 1/8 cores
}

type c10App struct {
	hasMetric bool
	qos       int
	base      int // 0 nil path, 1 KubepodsBesteffort, 2 Kubepods, 3 non-nil path with empty base, 4 CgroupRoot, 5 KubepodsBurstable
	used8     int64
}

type c10BudgetIn struct {
	capMilli, allocMilli int64
	annoKind             int // 0 none, 1 resources.cpu, 2 resources.cpu + reservedCPUs, 3 malformed json, 4 resources.cpu + unparsable reservedCPUs, 5 resources without cpu
	annoMilli            int64 // resources.cpu of the annotation
	annoCpus             int64 // number of cpus in reservedCPUs
	annoPolicy           int   // applyPolicy of the annotation: 0 absent, 1 "", 2 Default, 3 ReservedCPUsOnly, 4 an unknown value
	thr                  int64
	hasMin               bool
	minPct               int64
	node8                int64
	pods                 []c10Pod
	apps                 []c10App
}

const c10AppCombos = 36 // 6 QoS values x 6 cgroup-path shapes

func c10GenBudget(r *vRand, j int) c10BudgetIn {
	in := c10BudgetIn{}
	in.capMilli = int64(r.Range(2, 64)) * 1000
	if r.Chance(1, 8) {
		in.capMilli += int64(r.Pick([]int64{500, 250, 1, 999}))
	}
	in.allocMilli = in.capMilli - r.Pick([]int64{0, 0, 300, 500, 1000, 1001, 1999, 2000, -500})
	switch r.Intn(6) {
	case 0:
		in.annoKind = 1
		in.annoMilli = r.Pick([]int64{0, 300, 1000, 1001, 1500, 2003, 4000, 2500})
	case 1:
		in.annoKind = 2
		in.annoMilli = r.Pick([]int64{100, 100, 5000})
		in.annoCpus = int64(r.Range(1, 4))
	case 2:
		in.annoKind = 3
	case 3:
		in.annoKind = 4
		in.annoMilli = r.Pick([]int64{1000, 2500, 4000})
	case 4:
		in.annoKind = 5
	}
	// applyPolicy of the reservation annotation: taken from the case number, not from r, so that every policy meets
	// every annotation kind / reservation size (the koordlet budget honours the reserved amount under EVERY policy:
	// ReservedCPUsOnly only tells the scheduler not to trim the node allocatable)
	in.annoPolicy = ((j % c10AnnoPolicies) + c10AnnoPolicies) % c10AnnoPolicies
	in.thr = 65
	if r.Chance(1, 2) {
		in.thr = int64(r.Range(0, 100))
	}
	if r.Chance(1, 2) {
		in.hasMin = true
		in.minPct = int64(r.Range(0, 40))
	}
	capCores := int(in.capMilli / 1000)
	np := r.Range(0, 6)
	for i := 0; i < np; i++ {
		p := c10Pod{hasMeta: !r.Chance(1, 8), hasMetric: !r.Chance(1, 8), qos: r.Intn(6), kubeBE: r.Chance(1, 4)}
		if r.Chance(1, 3) {
			p.qos = c10QBE
			p.kubeBE = r.Chance(3, 4)
		}
		p.used8 = int64(r.Range(0, 8*capCores/3+1))
		in.pods = append(in.pods, p)
	}
	na := r.Range(0, 3)
	if r.Chance(1, 2) {
		na = 0
	}
	for i := 0; i < na; i++ {
		in.apps = append(in.apps, c10App{hasMetric: !r.Chance(1, 6), qos: int(r.Pick([]int64{c10QBE, c10QBE, c10QBE, c10QLS, c10QNone, c10QLSR, c10QLSE, c10QSys})),
			base: r.Intn(6), used8: int64(r.Range(0, 16))})
	}
	// systematic stream: every (QoS, cgroupPath shape) combination of NonBEHostAppFilter, with a metric
	if j%3 == 0 {
		k := (j / 3) % c10AppCombos
		a := c10App{hasMetric: true, qos: k / 6, base: k % 6, used8: int64(r.Range(1, 16))}
		pos := r.Intn(len(in.apps) + 1)
		in.apps = append(in.apps[:pos], append([]c10App{a}, in.apps[pos:]...)...)
	}
	switch r.Intn(4) {
	case 0:
		in.node8 = int64(r.Range(0, 8*capCores))
	case 1: // node usage below the sum of pods (system part clamps at 0 / at the reservation)
		in.node8 = int64(r.Range(0, 8))
	default:
		var s int64
		for _, p := range in.pods {
			if p.hasMetric {
				s += p.used8
			}
		}
		in.node8 = s + int64(r.Range(0, 24))
	}
	return in
}

func c10Milli8(x int64) int64 { return x * 125 }

// c10BudgetObjs: the real objects of a budget input and its op tokens.
type c10BudgetObjs struct {
	node       *corev1.Node
	metas      []*statesinformer.PodMeta
	podMetrics map[string]float64
	apps       []slov1alpha1.HostApplicationSpec
	appMetrics map[string]float64
	minP       *int64
	annoEff    int64
	opTokens   string // everything after the op kind
}

func c10BuildBudget(h *vHarness, in c10BudgetIn) *c10BudgetObjs {
	node := &corev1.Node{ObjectMeta: metav1.ObjectMeta{Name: "n"}, Status: corev1.NodeStatus{
		Capacity:    corev1.ResourceList{corev1.ResourceCPU: *resource.NewMilliQuantity(in.capMilli, resource.DecimalSI), corev1.ResourceMemory: resource.MustParse("64Gi")},
		Allocatable: corev1.ResourceList{corev1.ResourceCPU: *resource.NewMilliQuantity(in.allocMilli, resource.DecimalSI), corev1.ResourceMemory: resource.MustParse("60Gi")},
	}}
	pol := c10AnnoPolicyJSON[in.annoPolicy]
	annoStr := ""
	switch in.annoKind {
	case 1:
		annoStr = fmt.Sprintf(`{"resources":{"cpu":"%dm","memory":"1Gi"}%s}`, in.annoMilli, pol)
	case 2:
		annoStr = fmt.Sprintf(`{"resources":{"cpu":"%dm"},"reservedCPUs":"0-%d"%s}`, in.annoMilli, in.annoCpus-1, pol)
		if in.annoPolicy != 0 && in.annoCpus%2 == 0 { // key order must not matter
			annoStr = fmt.Sprintf(`{%s,"reservedCPUs":"0-%d","resources":{"cpu":"%dm"}}`, pol[1:], in.annoCpus-1, in.annoMilli)
		}
	case 4:
		annoStr = fmt.Sprintf(`{"resources":{"cpu":"%dm"},"reservedCPUs":"0-x"%s}`, in.annoMilli, pol)
	case 5:
		annoStr = fmt.Sprintf(`{"resources":{"memory":"2Gi"}%s}`, pol)
	case 3:
		annoStr = `{"resources":`
		if in.annoPolicy != 0 {
			annoStr = fmt.Sprintf(`{%s,"resources":`, pol[1:])
		}
	}
	if in.annoKind != 0 {
		node.Annotations = map[string]string{apiext.AnnotationNodeReservation: annoStr}
	}
	// what the annotation reserves, by the API's documentation: resources.cpu, overridden by the size of reservedCPUs;
	// nothing when the annotation is absent, malformed, carries an unparsable cpuset or no cpu amount -- whatever its
	// applyPolicy says.  The ORACLE's amount is read from the annotation STRING by the harness's own parsing
	// (c10OwnReservedMilli); the generator's intent is only cross-checked against it.
	annoEff := c10OwnReservedMilli(node.Annotations)
	{
		meant := int64(0)
		switch in.annoKind {
		case 1:
			meant = in.annoMilli
		case 2:
			meant = in.annoCpus * 1000
		}
		if meant != annoEff {
			panic(fmt.Sprintf("C10 harness: reservation annotation %q read as %dm, generator meant %dm", annoStr, annoEff, meant))
		}
	}
	if in.annoKind != 0 {
		h.Tag(fmt.Sprintf("budget:anno-policy-%d", in.annoPolicy))
	}
	h.Tag(fmt.Sprintf("budget:anno-kind-%d", in.annoKind))
	podMetrics := map[string]float64{}
	var metas []*statesinformer.PodMeta
	var podTok []int64
	np := 0
	for i, p := range in.pods {
		uid := fmt.Sprintf("uid-%d", i)
		pod := &corev1.Pod{ObjectMeta: metav1.ObjectMeta{Name: fmt.Sprintf("p%d", i), Namespace: "ns", UID: types.UID(uid)}}
		if p.qos != c10QNone || i%2 == 0 {
			pod.Labels = map[string]string{}
			if p.qos != c10QNone {
				pod.Labels[apiext.LabelPodQoS] = c10QoSNames[p.qos]
			}
		}
		if p.kubeBE {
			if i%2 == 0 {
				pod.Status.QOSClass = corev1.PodQOSBestEffort
			}
			pod.Spec.Containers = []corev1.Container{{Name: "c", Resources: corev1.ResourceRequirements{
				Requests: corev1.ResourceList{apiext.BatchCPU: resource.MustParse("1000")}}}}
		} else {
			if i%2 == 0 {
				pod.Status.QOSClass = corev1.PodQOSBurstable
			}
			pod.Spec.Containers = []corev1.Container{{Name: "c", Resources: corev1.ResourceRequirements{
				Requests: corev1.ResourceList{corev1.ResourceCPU: resource.MustParse("1")}}}}
		}
		if p.hasMeta {
			metas = append(metas, &statesinformer.PodMeta{Pod: pod})
		}
		if p.hasMetric {
			podMetrics[uid] = float64(p.used8) / 8
			podTok = append(podTok, int64(vB(p.hasMeta)), int64(p.qos), int64(vB(p.kubeBE)), c10Milli8(p.used8))
			np++
		}
	}
	var apps []slov1alpha1.HostApplicationSpec
	appMetrics := map[string]float64{}
	var appTok []int64
	na := 0
	for i, a := range in.apps {
		spec := slov1alpha1.HostApplicationSpec{Name: fmt.Sprintf("app%d", i), QoS: apiext.QoSClass(c10QoSNames[a.qos])}
		switch a.base {
		case 1:
			spec.CgroupPath = &slov1alpha1.CgroupPath{Base: slov1alpha1.CgroupBaseTypeKubeBesteffort, RelativePath: "x"}
		case 2:
			spec.CgroupPath = &slov1alpha1.CgroupPath{Base: slov1alpha1.CgroupBaseTypeKubepods, RelativePath: "x"}
		case 3:
			spec.CgroupPath = &slov1alpha1.CgroupPath{}
		case 4:
			spec.CgroupPath = &slov1alpha1.CgroupPath{Base: slov1alpha1.CgroupBaseTypeRoot, ParentDir: "host-latency-sensitive/", RelativePath: "x"}
		case 5:
			spec.CgroupPath = &slov1alpha1.CgroupPath{Base: slov1alpha1.CgroupBaseTypeKubeBurstable}
		}
		apps = append(apps, spec)
		if a.hasMetric {
			h.Tag(fmt.Sprintf("app:qos%d-base%d", a.qos, a.base))
		}
		if a.hasMetric {
			appMetrics[spec.Name] = float64(a.used8) / 8
			appTok = append(appTok, int64(a.qos), int64(a.base), c10Milli8(a.used8))
			na++
		}
	}
	var minP *int64
	if in.hasMin {
		m := in.minPct
		minP = &m
	}
	return &c10BudgetObjs{node: node, metas: metas, podMetrics: podMetrics, apps: apps, appMetrics: appMetrics, minP: minP, annoEff: annoEff,
		opTokens: strings.Join(strings.Fields(fmt.Sprintf("%d %d %d %d %d %d %d %d %d %d %d %s %d %s", in.capMilli, in.allocMilli, in.annoKind, in.annoMilli, in.annoCpus, in.annoPolicy, in.thr,
			vB(in.hasMin), in.minPct, c10Milli8(in.node8), np, vInts(podTok), na, vInts(appTok))), " ")}
}

// c10RunBudget builds the objects, calls the real code, emits op+obs and returns the value (ok=false on panic).
func c10RunBudget(h *vHarness, in c10BudgetIn) (int64, bool) {
	o := c10BuildBudget(h, in)
	h.Op("budget %s", o.opTokens)
	var got int64
	s := &CPUSuppress{}
	if h.Guard(func() {
		q := s.calculateBESuppressCPU(o.node, float64(in.node8)/8, o.podMetrics, o.metas, o.apps, o.appMetrics, in.thr, o.minP)
		got = q.MilliValue()
	}) {
		h.Obs("panic")
		h.Fail("C10:panic", "calculateBESuppressCPU panicked")
		return 0, false
	}
	h.Obs("budget %d", got)
	want, resBinding, podsNonBE, appsNonBE, sys := c10BudgetStatement(h, in, o.annoEff)
	floor := func(x int64) int64 { return c10BudgetFloor(in, x) }
	if !(got == floor(want) || (resBinding && got == floor(want+1))) {
		h.Fail("C10:budget-formula", "budget %d, statement gives %d (cap %d thr %d nonBE pods %d apps %d system %d)",
			got, floor(want), in.capMilli, in.thr, podsNonBE, appsNonBE, sys)
	}
	c10TagAnnoBinds(h, in, o.annoEff, resBinding, "budget")
	if resBinding {
		h.Tag("budget:reservation-binds")
	} else {
		h.Tag("budget:system-binds")
	}
	if in.hasMin && got == in.capMilli*in.minPct/100 {
		h.Tag("budget:floored")
	}
	return got, true
}

// c10TagAnnoBinds: histogram of the inputs on which the ANNOTATION's amount is the binding system term (above the kubelet
// reservation and the measured system usage), per applyPolicy -- the only inputs on which the policy could matter.
func c10TagAnnoBinds(h *vHarness, in c10BudgetIn, annoEff int64, resBinding bool, prefix string) {
	if resBinding && annoEff > in.capMilli-in.allocMilli && annoEff > 0 {
		h.Tag(fmt.Sprintf("%s:anno-reservation-binds-policy-%d", prefix, in.annoPolicy))
	}
}

func c10BudgetFloor(in c10BudgetIn, x int64) int64 {
	if in.hasMin && x < in.capMilli*in.minPct/100 {
		return in.capMilli * in.minPct / 100
	}
	return x
}

// c10BudgetStatement: the statement's budget before the floor, integer arithmetic in milli-CPU; resBinding = the system
// term is the node reservation (whose float round trip may lose one milli-CPU, so want+1 is admissible too).
func c10BudgetStatement(h *vHarness, in c10BudgetIn, annoEff int64) (want int64, resBinding bool, podsNonBE, appsNonBE, sys int64) {
	var podsAll, appsAll int64
	for _, p := range in.pods {
		if !p.hasMetric {
			continue
		}
		podsAll += c10Milli8(p.used8)
		if !p.hasMeta || (p.qos != c10QBE && !p.kubeBE) {
			podsNonBE += c10Milli8(p.used8)
		}
	}
	for _, a := range in.apps {
		if !a.hasMetric {
			continue
		}
		appsAll += c10Milli8(a.used8)
		if !(a.qos == c10QBE && a.base == 1) {
			appsNonBE += c10Milli8(a.used8)
		}
	}
	reserved := in.capMilli - in.allocMilli
	if reserved < 0 {
		reserved = 0
	}
	if annoEff > reserved {
		reserved = annoEff
	}
	sys = c10Milli8(in.node8) - podsAll - appsAll
	if sys < 0 {
		sys = 0
	}
	resBinding = sys < reserved
	if resBinding {
		sys = reserved
	}
	want = in.capMilli*in.thr/100 - podsNonBE - appsNonBE - sys
	// float64(reserved)/1000*1000 may truncate one milli-CPU below the reservation (e.g. 1001 -> 1000): accepted
	rt := int64(float64(reserved) / 1000 * 1000)
	if rt != reserved && rt != reserved-1 {
		h.Fail("C10:float-assumption", "int64(float64(%d)/1000*1000) = %d", reserved, rt)
	}
	return
}

// ---------------------------------------------------------------- the test

func TestVerifC10(t *testing.T) {
	h := vOpen("C10")
	if h == nil {
		t.Skip("VERIF_OUT not set")
	}
	klog.LogToStderr(false)
	klog.SetOutput(io.Discard)
	cg := c10NewCgroup(t)
	beDir := koordletutil.GetPodQoSRelativePath(corev1.PodQOSBestEffort)
	n := h.N(6000, 150000)
	for idx := 0; idx < n; idx++ {
		r := h.Begin(idx)
		if r == nil {
			continue
		}
		switch idx % 4 {
		case 0:
			c10CaseBudget(h, r, idx/4)
		case 1:
			c10CasePolicy(h, r)
		case 2:
			c10CaseCPUSet(t, h, r, cg, beDir, idx/4)
		default:
			c10CaseQuota(t, h, r, cg, beDir)
		}
		h.End()
	}
	h.Close("case kind by idx%4: budget (node 2-64 CPUs, reservations by kubelet/annotation/reservedCPUs/malformed x applyPolicy {absent, empty, Default, ReservedCPUsOnly, unknown} cycling with the case number, 0-6 pods with QoS label x kube QoS x " +
		"metric/meta presence, 0-3 host apps over 6 QoS values x {nil path, KubepodsBesteffort, Kubepods, empty base, CgroupRoot, KubepodsBurstable} plus a " +
		"systematic stream enumerating all 36 (QoS, path) combinations, dyadic usages; re-run with one non-BE consumption bumped) | policy (generated topologies 1-64 CPUs: " +
		"sockets x numa x cores x 1-4 threads, two cpu-id layouts, restarting core ids, offline cpus, shuffled lists, colliding numa ids; k in [-1,n+2]) | " +
		"cpuset (same topologies; 0-5 pods LSE/LSR/LS/BE/none/SYSTEM with disjoint or overlapping cpusets, malformed/empty/absent annotations, lifecycle " +
		"states phase unset/Running/Running+deletionTimestamp/Pending/Succeeded/Failed/Failed+deletionTimestamp, a stream of terminating or finished LSE " +
		"pods owning a core pair; reserved cpus none/some/all/malformed; system-QoS cpuset exclusive by default/explicit/shared/malformed; every third case one cell of the " +
		"systematic product {reservation absent / well-formed / cpu list rejected by cpuset.Parse / malformed JSON} x {system-QoS absent / exclusive by default / " +
		"explicit / shared / malformed JSON / rejected cpu list exclusive by default / explicit / reversed range / rejected and shared} with 7 rejected spellings " +
		"(\"6, 7\", \"a\", \"6-\", \"6-x\", \"1-2-3\", trailing comma, trailing newline), non-empty sets; PodMeta.CgroupDir empty or the pod's directory (BE pods: a BE pod dir of the tree); topology object " +
		"missing; kubelet policy none/static/malformed (BE root, pod and container level read back); calcBECPUSet on the same inputs; budget from below " +
		"2 CPUs to above the free CPUs; old BE cpuset) | " +
		"quota (budget incl. negative/tiny, current quota -1/2000/near/far, a stream with current -1 and the target inside the 1 % band, capacity 1-96 CPUs " +
		"incl. fractional, cgroup v1 cpu.cfs_quota_us and cgroup v2 cpu.max formats). " +
		"non-trivial = budget with >=1 metric; policy with 0<k<=n; cpuset with >=1 eligible CPU and a write; quota that is written (not bypassed); distinct by op line")
}

// TestVerifC10Exhaustive (thorough tier): calculateBESuppressCPUSetPolicy on EVERY topology with at most
// 2 sockets x 2 NUMA nodes per socket x 2 cores x 2 threads (both cpu-id layouts, global and per-socket core ids),
// every sub-list of it when it has <= 8 CPUs (all 2^n pools), every sub-list missing <= 3 CPUs when it has 16,
// and every k in [-1, n+1].  One case = one processor list, one op per k.
func TestVerifC10Exhaustive(t *testing.T) {
	h := vOpen("C10")
	if h == nil {
		t.Skip("VERIF_OUT not set")
	}
	klog.LogToStderr(false)
	klog.SetOutput(io.Discard)
	idx, ops := 0, 0
	emit := func(ps []koordletutil.ProcessorInfo) {
		r := h.Begin(idx)
		idx++
		if r == nil {
			return
		}
		for k := -1; k <= len(ps)+1; k++ {
			c10PolicyOne(h, k, ps)
			ops++
		}
		if len(ps) > 0 {
			h.Nontrivial()
		}
		h.End()
	}
	for sockets := 1; sockets <= 2; sockets++ {
		for nodesPer := 1; nodesPer <= 2; nodesPer++ {
			for cores := 1; cores <= 2; cores++ {
				for threads := 1; threads <= 2; threads++ {
					for layout := 0; layout < 4; layout++ {
						siblingStyle, coreRestart := layout&1 == 0, layout&2 != 0
						total := sockets * nodesPer * cores * threads
						nCores := total / threads
						var ps []koordletutil.ProcessorInfo
						coreGlobal := 0
						for s := 0; s < sockets; s++ {
							for nd := 0; nd < nodesPer; nd++ {
								for c := 0; c < cores; c++ {
									coreID := coreGlobal
									if coreRestart {
										coreID = nd*cores + c
									}
									for th := 0; th < threads; th++ {
										cpu := coreGlobal*threads + th
										if !siblingStyle {
											cpu = th*nCores + coreGlobal
										}
										ps = append(ps, koordletutil.ProcessorInfo{CPUID: int32(cpu), CoreID: int32(coreID),
											SocketID: int32(s), NodeID: int32(s*nodesPer + nd)})
									}
									coreGlobal++
								}
							}
						}
						sort.Slice(ps, func(i, j int) bool { return ps[i].CPUID < ps[j].CPUID })
						for mask := 0; mask < 1<<uint(total); mask++ {
							missing := 0
							for b := 0; b < total; b++ {
								if mask&(1<<uint(b)) == 0 {
									missing++
								}
							}
							if total > 8 && missing > 3 {
								continue
							}
							var q []koordletutil.ProcessorInfo
							for b := 0; b < total; b++ {
								if mask&(1<<uint(b)) != 0 {
									q = append(q, ps[b])
								}
							}
							emit(q)
						}
					}
				}
			}
		}
	}
	nPolicy := idx
	idx = c10AnnoExhaustive(t, h, idx)
	h.Extra("exhaustive-annotations", fmt.Sprintf("adjustByCPUSet + calcBECPUSet on one 8-CPU node: every reservation annotation in {absent, 0-1, \"0,1\", "+
		"%d rejected spellings, malformed JSON} x every system-QoS annotation in {absent, {6-7, \"6,7\", %d rejected spellings, reversed 7-6, empty} x "+
		"{exclusive by default, true, false}, 2 malformed JSONs} x kubelet policy {none, static} x budget {1500, 4000, 9000} x {no pod, LSE pod on 2-3}: %d cases",
		c10Typos, c10Typos, idx-nPolicy))
	h.Extra("exhaustive", fmt.Sprintf("calculateBESuppressCPUSetPolicy: all topologies <= 2 sockets x 2 numa x 2 cores x 2 threads x 4 id layouts, "+
		"all sub-lists (n <= 8) / all sub-lists missing <= 3 cpus (n = 16), all k in [-1, n+1]: %d processor lists, %d calls", nPolicy, ops))
	h.Close("exhaustive small scope for the selection: every topology <= 2x2x2x2 (4 id layouts), every pool that is a sub-list (all for n<=8, missing<=3 for n=16), every k in [-1,n+1]; " +
		"then the exhaustive annotation-shape product for the cpuset paths on one 8-CPU node (see exhaustive-annotations); non-trivial = non-empty pool / a cpuset write with an eligible CPU")
}

// c10AnnoExhaustive (thorough tier): the two cpuset paths on one 8-CPU node (4 cores x 2 threads, reserved candidates 0-1,
// system-QoS candidates 6-7) for EVERY pair of annotation spellings; returns the next free case index.
func c10AnnoExhaustive(t *testing.T, h *vHarness, idx int) int {
	cg := c10NewCgroup(t)
	beDir := koordletutil.GetPodQoSRelativePath(corev1.PodQOSBestEffort)
	var ps []koordletutil.ProcessorInfo
	ids := []int{0, 1, 2, 3, 4, 5, 6, 7}
	for _, c := range ids {
		ps = append(ps, koordletutil.ProcessorInfo{CPUID: int32(c), CoreID: int32(c / 2), SocketID: 0, NodeID: 0})
	}
	type resA struct {
		anno string
		has  bool
		kind int // c10CSIn.resKind: 1 well-formed, 3 rejected cpu list, 4 malformed JSON
		want []int
	}
	type sysA struct {
		anno string
		has  bool
		kind int
		raw  []int
		want []int
	}
	res01, sys67 := []int{0, 1}, []int{6, 7}
	resAll := []resA{{}, {`{"reservedCPUs":"0-1"}`, true, 1, res01}, {`{"resources":{"cpu":"2"},"reservedCPUs":"0,1"}`, true, 1, res01}, {`{"reservedCPUs":`, true, 4, nil}}
	for v := 0; v < c10Typos; v++ {
		resAll = append(resAll, resA{fmt.Sprintf(`{"reservedCPUs":"%s"}`, c10TypoCPUList(res01, v)), true, 3, nil})
	}
	sysAll := []sysA{{}, {anno: `{"cpuset":[1]}`, has: true, kind: 4}, {anno: `{"cpuset":`, has: true, kind: 4}}
	for e, excl := range []string{"", `,"cpusetExclusive":true`, `,"cpusetExclusive":false`} {
		add := func(str string, kindExcl, kindShared int, raw, want []int) {
			k := kindExcl
			if e == 2 {
				k, want = kindShared, nil
			}
			sysAll = append(sysAll, sysA{fmt.Sprintf(`{"cpuset":"%s"%s}`, str, excl), true, k, raw, want})
		}
		add("6-7", 1+e, 3, sys67, sys67)
		add("6,7", 1+e, 3, sys67, sys67)
		add("", 1+e, 3, nil, nil)
		add("7-6", 6, 3, sys67, nil)
		for v := 0; v < c10Typos; v++ {
			add(c10TypoCPUList(sys67, v), 5, 7, sys67, nil)
		}
	}
	for _, ra := range resAll {
		for _, sa := range sysAll {
			for kp := 0; kp <= 1; kp++ {
				for _, budget := range []int64{1500, 4000, 9000} {
					for lse := 0; lse <= 1; lse++ {
						r := h.Begin(idx)
						idx++
						if r == nil {
							continue
						}
						in := &c10CSIn{ps: ps, ids: ids, nCPU: len(ids), resKind: ra.kind, sysKind: sa.kind, sysRaw: sa.raw, topoAnno: map[string]string{},
							kp: kp, budget: budget, old: append([]int(nil), ids...)}
						if ra.kind != 4 && ra.has {
							in.resRaw = res01
						}
						if ra.has {
							in.topoAnno[apiext.AnnotationNodeReservation] = ra.anno
						}
						if sa.has {
							in.topoAnno[apiext.AnnotationNodeSystemQOSResource] = sa.anno
						}
						if kp == 1 {
							in.topoAnno[apiext.AnnotationKubeletCPUManagerPolicy] = `{"policy":"static"}`
						}
						if lse == 1 {
							in.pods = []c10CPod{{qos: c10QLSE, cpus: []int{2, 3}, life: 1}}
						}
						in.ownProtected(ra.want, sa.want)
						h.Tag(fmt.Sprintf("annox:res-kind-%d-sys-kind-%d", ra.kind, sa.kind))
						c10RunCPUSet(t, h, r, cg, beDir, in)
						h.End()
					}
				}
			}
		}
	}
	return idx
}

func c10CaseBudget(h *vHarness, r *vRand, j int) {
	in := c10GenBudget(r, j)
	got1, ok := c10RunBudget(h, in)
	h.Tag("kind:budget")
	if !ok {
		return
	}
	if len(in.pods) > 0 || len(in.apps) > 0 {
		h.Nontrivial()
	}
	// paired run: grow one non-BE consumption (a non-BE pod, a non-BE host app, or the node/system usage)
	in2 := in
	in2.pods = append([]c10Pod(nil), in.pods...)
	in2.apps = append([]c10App(nil), in.apps...)
	delta := int64(r.Range(1, 24))
	var cand []int
	for i, p := range in.pods {
		if p.hasMetric && (!p.hasMeta || (p.qos != c10QBE && !p.kubeBE)) {
			cand = append(cand, i)
		}
	}
	var candA []int
	for i, a := range in.apps {
		if a.hasMetric && !(a.qos == c10QBE && a.base == 1) {
			candA = append(candA, i)
		}
	}
	what := "node"
	switch {
	case len(cand) > 0 && r.Chance(2, 3):
		i := cand[r.Intn(len(cand))]
		in2.pods[i].used8 += delta
		what = "pod"
		if r.Bool() { // the node-level metric sees the same growth
			in2.node8 += delta
			what = "pod+node"
		}
	case len(candA) > 0 && r.Bool():
		i := candA[r.Intn(len(candA))]
		in2.apps[i].used8 += delta
		what = "app"
	default:
		in2.node8 += delta
	}
	got2, ok := c10RunBudget(h, in2)
	h.Tag("bump:" + what)
	if ok && got2 > got1 {
		h.Fail("C10:budget-grows", "non-BE consumption (%s) grew by %d/8 CPU but the BE budget grew %d -> %d", what, delta, got1, got2)
	}
}

func c10CasePolicy(h *vHarness, r *vRand) {
	ps := c10Topo(r)
	if r.Chance(1, 3) { // as the LS/LSR pools: an arbitrary sub-list
		var q []koordletutil.ProcessorInfo
		for _, p := range ps {
			if !r.Chance(1, 3) {
				q = append(q, p)
			}
		}
		ps = q
	}
	if r.Chance(1, 40) {
		ps = nil
	}
	k := r.Range(-1, len(ps)+2)
	if r.Chance(1, 2) && len(ps) > 0 {
		k = r.Range(1, len(ps))
	}
	c10PolicyOne(h, k, ps)
}

// c10PolicyOne: one call of calculateBESuppressCPUSetPolicy(k, ps) with op, observation and oracle.
func c10PolicyOne(h *vHarness, k int, ps []koordletutil.ProcessorInfo) {
	h.Op("policy %d %s", k, c10ProcTokens(ps))
	h.Tag("kind:policy")
	h.Tag(fmt.Sprintf("policy:n<=%d", (len(ps)+7)/8*8))
	var got []int32
	if h.Guard(func() { got = calculateBESuppressCPUSetPolicy(int32(k), ps) }) {
		h.Obs("panic")
		h.Fail("C10:panic", "calculateBESuppressCPUSetPolicy panicked (k=%d, n=%d)", k, len(ps))
		return
	}
	xs := make([]int64, len(got))
	for i, c := range got {
		xs[i] = int64(c)
	}
	h.Obs("%s", strings.TrimSpace("cpus "+vInts(xs)))
	if k > 0 && k <= len(ps) {
		h.Nontrivial()
	}
	exist := map[int32]bool{}
	for _, p := range ps {
		exist[p.CPUID] = true
	}
	seen := map[int32]bool{}
	for _, c := range got {
		if seen[c] {
			h.Fail("C10:policy-duplicate", "cpu %d selected twice", c)
		}
		seen[c] = true
		if !exist[c] {
			h.Fail("C10:policy-unknown-cpu", "cpu %d is not in the processor list", c)
		}
	}
	switch {
	case k > len(ps):
		if len(got) != 0 {
			h.Fail("C10:policy-count", "want %d of %d cpus: expected none, got %d", k, len(ps), len(got))
		}
		h.Tag("policy:short")
	case k >= 0:
		if len(got) != k {
			h.Fail("C10:policy-count", "want %d of %d cpus, got %d", k, len(ps), len(got))
		}
		h.Tag("policy:exact")
	default:
		if len(got) != 0 {
			h.Fail("C10:policy-count", "negative request %d returned %d cpus", k, len(got))
		}
	}
}

type c10CPod struct {
	qos   int
	kind  int // 0 valid, 1 no annotation, 2 malformed json, 3 empty cpuset, 4 unparsable cpuset
	cpus  []int
	style int
	life  int // 0 phase unset, 1 Running, 2 Running+deletionTimestamp, 3 Pending, 4 Succeeded, 5 Failed, 6 Failed+deletionTimestamp
}

// c10Life draws a lifecycle state: half of the pods are plainly running, the rest spread over every other state.
func c10Life(r *vRand) int {
	if r.Bool() {
		return r.Intn(2)
	}
	return r.Range(2, 6)
}

func c10ApplyLife(pod *corev1.Pod, life int) {
	switch life {
	case 1, 2:
		pod.Status.Phase = corev1.PodRunning
	case 3:
		pod.Status.Phase = corev1.PodPending
	case 4:
		pod.Status.Phase = corev1.PodSucceeded
	case 5, 6:
		pod.Status.Phase = corev1.PodFailed
	}
	if life == 2 || life == 6 {
		ts := metav1.Unix(1700000000, 0)
		pod.DeletionTimestamp = &ts
		g := int64(30)
		pod.DeletionGracePeriodSeconds = &g
	}
}

// c10CSIn: one generated input of the cpuset path (topology, pods, annotations, budget, old BE cpuset).
type c10CSIn struct {
	ps       []koordletutil.ProcessorInfo
	ids      []int
	nCPU     int
	pods     []c10CPod
	reserved []int // reserved cpus as the ORACLE reads the node-reservation annotation (c10OwnProtected)
	sysCPUs  []int // system-exclusive cpus as the ORACLE reads the system-QoS annotation (c10OwnProtected)
	resRaw   []int // cpus the generator put (or meant to put) into reservedCPUs: op tokens, the model decides by the shape
	sysRaw   []int // cpuset named (or meant) by the system-QoS annotation, exclusive or not, well-formed or not: op tokens
	sysKind  int
	resKind  int
	topoAnno map[string]string
	topoNil  bool
	kp       int
	budget   int64
	old      []int
}

func c10GenCPUSet(r *vRand) *c10CSIn {
	ps := c10Topo(r)
	if r.Chance(1, 50) {
		ps = nil
	}
	var ids []int
	for _, p := range ps {
		ids = append(ids, int(p.CPUID))
	}
	sort.Ints(ids)
	nCPU := len(ids)

	// pods with cpuset annotations
	var pods []c10CPod
	np := r.Range(0, 4)
	overlapping := r.Chance(1, 8)
	free := append([]int(nil), ids...)
	for i := 0; i < np; i++ {
		p := c10CPod{qos: int(r.Pick([]int64{c10QLSE, c10QLSE, c10QLSR, c10QLSR, c10QLS, c10QBE, c10QNone, c10QSys})), style: r.Intn(3)}
		if r.Chance(1, 8) {
			p.kind = r.Range(1, 4)
		}
		p.life = c10Life(r)
		src := free
		if overlapping {
			src = ids
		}
		var take []int
		switch r.Intn(4) {
		case 0:
			take = c10Subset(r, src, 1, 2)
		case 1: // one whole "core pair"
			if len(src) >= 2 {
				j := r.Intn(len(src) - 1)
				take = []int{src[j], src[j+1]}
			}
		default:
			take = c10Subset(r, src, 1, 4)
		}
		if r.Chance(1, 10) {
			take = append(take, nCPU+r.Range(0, 3)) // a cpu id that does not exist on the node
		}
		if r.Chance(1, 12) {
			take = append([]int(nil), src...) // everything that is left
		}
		p.cpus = take
		if !overlapping {
			var rest []int
			tk := map[int]bool{}
			for _, c := range take {
				tk[c] = true
			}
			for _, c := range free {
				if !tk[c] {
					rest = append(rest, c)
				}
			}
			free = rest
		}
		pods = append(pods, p)
	}

	// node reservation (topology annotation): 0 none, 1 some, 2 all, 3 malformed cpuset string, 4 malformed json
	resKind := r.Intn(8)
	if resKind > 4 {
		resKind = 0
	}
	var reserved []int
	topoAnno := map[string]string{}
	switch resKind {
	case 1:
		reserved = c10Subset(r, ids, 1, 4)
		if r.Bool() && nCPU >= 2 {
			reserved = []int{ids[0], ids[1]}
		}
		topoAnno[apiext.AnnotationNodeReservation] = fmt.Sprintf(`{"reservedCPUs":"%s"}`, c10SetStr(reserved, r.Intn(2)))
	case 2:
		reserved = append([]int(nil), ids...)
		topoAnno[apiext.AnnotationNodeReservation] = fmt.Sprintf(`{"reservedCPUs":"%s"}`, c10SetStr(reserved, 0))
	case 3:
		topoAnno[apiext.AnnotationNodeReservation] = `{"reservedCPUs":"1-x"}`
	case 4:
		topoAnno[apiext.AnnotationNodeReservation] = `{"reservedCPUs":`
	}
	// system QoS cpuset: 0 none, 1 exclusive (default), 2 exclusive explicit, 3 shared, 4 malformed
	sysKind := r.Intn(10)
	if sysKind > 4 {
		sysKind = 0
	}
	var sysCPUs []int
	sysExclusive := false
	if sysKind >= 1 && sysKind <= 3 {
		sysCPUs = c10Subset(r, ids, 1, 5)
		if r.Chance(1, 10) {
			sysCPUs = append([]int(nil), ids...)
		}
		switch sysKind {
		case 1:
			topoAnno[apiext.AnnotationNodeSystemQOSResource] = fmt.Sprintf(`{"cpuset":"%s"}`, c10SetStr(sysCPUs, 0))
			sysExclusive = true
		case 2:
			topoAnno[apiext.AnnotationNodeSystemQOSResource] = fmt.Sprintf(`{"cpuset":"%s","cpusetExclusive":true}`, c10SetStr(sysCPUs, 1))
			sysExclusive = true
		case 3:
			topoAnno[apiext.AnnotationNodeSystemQOSResource] = fmt.Sprintf(`{"cpuset":"%s","cpusetExclusive":false}`, c10SetStr(sysCPUs, 0))
		}
	} else if sysKind == 4 {
		topoAnno[apiext.AnnotationNodeSystemQOSResource] = `{"cpuset":[1]}`
	}
	sysRaw := append([]int(nil), sysCPUs...) // the cpuset named by the annotation, exclusive or not
	if !sysExclusive || len(sysCPUs) == 0 {
		sysCPUs, sysExclusive = nil, false
	}
	// degenerate: protect every CPU through a mix of the three mechanisms
	if r.Chance(1, 25) && nCPU > 0 && resKind <= 2 && sysKind != 4 {
		cut := r.Intn(nCPU + 1)
		reserved = append([]int(nil), ids[:cut]...)
		topoAnno[apiext.AnnotationNodeReservation] = fmt.Sprintf(`{"reservedCPUs":"%s"}`, c10SetStr(reserved, 0))
		if len(reserved) == 0 {
			delete(topoAnno, apiext.AnnotationNodeReservation)
		}
		pods = append(pods, c10CPod{qos: c10QLSE, cpus: append([]int(nil), ids[cut:]...), life: c10Life(r)})
	}
	// an LSE pod in graceful termination / already finished that owns a whole core pair (the seeded C10-c shape)
	if r.Chance(1, 6) && len(free) >= 2 && !overlapping {
		j := r.Intn(len(free) - 1)
		pods = append(pods, c10CPod{qos: c10QLSE, cpus: []int{free[j], free[j+1]}, style: r.Intn(3), life: r.Range(2, 6)})
	}
	// topology object missing; kubelet CPU-manager policy annotation
	topoNil := r.Chance(1, 60)
	kp := 0 // 0 none, 1 static, 2 malformed
	switch r.Intn(12) {
	case 6:
		topoAnno[apiext.AnnotationKubeletCPUManagerPolicy] = `{"policy":"none"}`
	case 7, 8:
		kp = 1
		topoAnno[apiext.AnnotationKubeletCPUManagerPolicy] = `{"policy":"static"}`
	case 9, 10:
		kp = 1
		topoAnno[apiext.AnnotationKubeletCPUManagerPolicy] = `{"policy":"static","options":{"full-pcpus-only":"true"},"reservedCPUs":"0"}`
	case 11:
		kp = 2
		topoAnno[apiext.AnnotationKubeletCPUManagerPolicy] = `{"policy":`
	}

	// budget / old cpuset
	var budget int64
	switch r.Intn(6) {
	case 0:
		budget = int64(r.Range(-2000, 2100)) // below two CPUs
	case 1:
		budget = int64(nCPU*1000 + r.Range(-1500, 3000)) // around/above everything
	default:
		budget = int64(r.Range(0, nCPU*1000+500))
	}
	old := c10Subset(r, ids, 1, 2)
	switch r.Intn(8) {
	case 0:
		old = append([]int(nil), ids...)
	case 1:
		old = c10Subset(r, ids, 1, 6)
	case 2:
		if r.Chance(1, 3) {
			old = nil
		}
	}
	sort.Ints(old)
	in := &c10CSIn{ps: ps, ids: ids, nCPU: nCPU, pods: pods, resRaw: reserved, sysRaw: sysRaw, sysKind: sysKind,
		resKind: resKind, topoAnno: topoAnno, topoNil: topoNil, kp: kp, budget: budget, old: old}
	in.ownProtected(reserved, sysCPUs)
	return in
}

// ---------------------------------------------------------------- the oracle's own reading of the two node annotations

// c10ParseCPUList: the cpu-list grammar, strictly: "" | item ("," item)*, item = N | N-M with N <= M, N and M plain
// decimal numbers.  ok=false for anything else (blanks, letters, signs, dangling or reversed ranges, empty items).
func c10ParseCPUList(s string) (cpus []int, ok bool) {
	if s == "" {
		return nil, true
	}
	num := func(x string) (int, bool) {
		if x == "" || len(x) > 6 {
			return 0, false
		}
		v := 0
		for _, ch := range x {
			if ch < '0' || ch > '9' {
				return 0, false
			}
			v = v*10 + int(ch-'0')
		}
		return v, true
	}
	seen := map[int]bool{}
	for _, item := range strings.Split(s, ",") {
		lo, hi := item, item
		if i := strings.IndexByte(item, '-'); i >= 0 {
			lo, hi = item[:i], item[i+1:]
		}
		a, ok1 := num(lo)
		b, ok2 := num(hi)
		if !ok1 || !ok2 || a > b {
			return nil, false
		}
		for c := a; c <= b; c++ {
			if !seen[c] {
				seen[c] = true
				cpus = append(cpus, c)
			}
		}
	}
	sort.Ints(cpus)
	return cpus, true
}

// c10ParseFile: a cpuset.cpus content read back with the harness's own cpu-list grammar (not the repo's cpuset.Parse,
// so a change of that function cannot hide itself from the oracle).
type c10Set []int

func (s c10Set) ToSlice() []int { return []int(s) }

func c10ParseFile(raw string) (c10Set, error) {
	cpus, ok := c10ParseCPUList(strings.Trim(raw, "\n"))
	if !ok {
		return nil, fmt.Errorf("not a cpu list: %q", raw)
	}
	return c10Set(cpus), nil
}

// c10AnnoPolicies: the applyPolicy spellings of a node-reservation annotation (index = c10BudgetIn.annoPolicy), as the
// JSON fragment appended to the object: absent, empty, Default, ReservedCPUsOnly, a value the API does not know.
const c10AnnoPolicies = 5

var c10AnnoPolicyJSON = [c10AnnoPolicies]string{"", `,"applyPolicy":""`, `,"applyPolicy":"Default"`, `,"applyPolicy":"ReservedCPUsOnly"`, `,"applyPolicy":"Whatever"`}

// c10OwnReservedMilli: the CPU amount (milli) the NODE's reservation annotation reserves, read by the oracle itself
// (encoding/json into its own struct, own quantity and cpu-list grammar; neither apiext.NodeReservation nor
// util.GetNodeReservationFromAnnotation): the size of a well-formed non-empty reservedCPUs, else resources.cpu; nothing
// when the JSON or the cpu list cannot be read.  applyPolicy is deliberately NOT looked at: the statement's system term
// is "at least the node reservation", and ReservedCPUsOnly reserves the very same cores (it only keeps the scheduler
// from trimming the allocatable).
func c10OwnReservedMilli(anno map[string]string) int64 {
	s, ok := anno[apiext.AnnotationNodeReservation]
	if !ok || s == "" {
		return 0
	}
	var v struct {
		Resources    map[string]string `json:"resources"`
		ReservedCPUs string            `json:"reservedCPUs"`
	}
	if json.Unmarshal([]byte(s), &v) != nil {
		return 0
	}
	cpus, ok := c10ParseCPUList(v.ReservedCPUs)
	if !ok {
		return 0
	}
	if len(cpus) > 0 {
		return int64(len(cpus)) * 1000
	}
	q, ok := v.Resources["cpu"]
	if !ok {
		return 0
	}
	// the generated quantities are plain decimal cores ("2") or milli-cores ("1500m")
	mul := int64(1000)
	if strings.HasSuffix(q, "m") {
		q, mul = strings.TrimSuffix(q, "m"), 1
	}
	n, err := strconv.ParseInt(q, 10, 64)
	if err != nil || n < 0 {
		panic(fmt.Sprintf("C10 harness: quantity %q outside the generated grammar", v.Resources["cpu"]))
	}
	return n * mul
}

// c10OwnProtected: the CPUs the NodeResourceTopology annotations protect, by the statement: the union of every
// WELL-FORMED source.  A source that cannot be read (JSON or cpu list) protects nothing and says nothing about the other.
func c10OwnProtected(anno map[string]string) (reserved, sysExcl []int) {
	if s, ok := anno[apiext.AnnotationNodeReservation]; ok {
		var v struct {
			ReservedCPUs string `json:"reservedCPUs"`
		}
		if json.Unmarshal([]byte(s), &v) == nil {
			if cpus, ok := c10ParseCPUList(v.ReservedCPUs); ok {
				reserved = cpus
			}
		}
	}
	if s, ok := anno[apiext.AnnotationNodeSystemQOSResource]; ok {
		var v struct {
			CPUSet    string `json:"cpuset"`
			Exclusive *bool  `json:"cpusetExclusive"`
		}
		if json.Unmarshal([]byte(s), &v) == nil && (v.Exclusive == nil || *v.Exclusive) { // exclusive unless it says otherwise
			if cpus, ok := c10ParseCPUList(v.CPUSet); ok {
				sysExcl = cpus
			}
		}
	}
	return
}

// ownProtected fills the oracle's sets from the annotation strings and cross-checks the generator's intent.
func (in *c10CSIn) ownProtected(wantRes, wantSys []int) {
	in.reserved, in.sysCPUs = c10OwnProtected(in.topoAnno)
	same := func(a, b []int) bool {
		x, y := append([]int(nil), a...), append([]int(nil), b...)
		sort.Ints(x)
		sort.Ints(y)
		return fmt.Sprint(x) == fmt.Sprint(y)
	}
	if !same(in.reserved, wantRes) || !same(in.sysCPUs, wantSys) {
		panic(fmt.Sprintf("C10 harness: annotations %v read as reserved %v system %v, generator meant %v / %v", in.topoAnno, in.reserved, in.sysCPUs, wantRes, wantSys))
	}
}

// c10TypoCPUList: the cpus written the way a hand-edited annotation can carry them and cpuset.Parse rejects.
func c10TypoCPUList(cpus []int, variant int) string {
	first := 0
	if len(cpus) > 0 {
		first = cpus[0]
	}
	switch variant % c10Typos {
	case 0: // "6, 7"
		if len(cpus) >= 2 {
			ss := make([]string, len(cpus))
			for i, c := range cpus {
				ss[i] = strconv.Itoa(c)
			}
			return strings.Join(ss, ", ")
		}
		return " " + strconv.Itoa(first)
	case 1:
		return "a"
	case 2:
		return strconv.Itoa(first) + "-"
	case 3:
		return strconv.Itoa(first) + "-x"
	case 4:
		return "1-2-3"
	case 5:
		return c10SetStr(cpus, 0) + ","
	default:
		return c10SetStr(cpus, 1) + "\n"
	}
}

const (
	c10Typos     = 7
	c10ResShapes = 4 // 0 absent, 1 reservedCPUs well-formed, 2 reservedCPUs rejected by cpuset.Parse, 3 malformed JSON
	c10SysShapes = 9 // 0 absent, 1 cpuset (exclusive by default), 2 cpusetExclusive true, 3 cpusetExclusive false, 4 malformed JSON,
	// 5 rejected cpuset exclusive by default, 6 rejected cpuset cpusetExclusive true, 7 reversed range "3-1" (parses, empty), 8 rejected cpuset cpusetExclusive false
	c10AnnoCells = c10ResShapes * c10SysShapes
)

// c10ApplyAnnoCell replaces the node-reservation and system-QoS annotations of the input by one cell of the cross
// product {reservation shape} x {system-QoS shape}; the sets are non-empty whenever the node has CPUs, so every
// well-formed source has something to protect.  sysKind tokens of the op line: 0-4 as before, 5 = exclusive cpuset
// string that cpuset.Parse rejects, 6 = exclusive reversed range (parses to nothing), 7 = non-exclusive rejected string.
func c10ApplyAnnoCell(h *vHarness, r *vRand, in *c10CSIn, cell int) {
	resShape, sysShape := cell%c10AnnoCells/c10SysShapes, cell%c10SysShapes
	h.Tag(fmt.Sprintf("anno-cell:res%d-sys%d", resShape, sysShape))
	ids, nCPU := in.ids, in.nCPU
	pick := func() []int {
		s := c10Subset(r, ids, 1, 4)
		if len(s) == 0 && nCPU > 0 {
			s = []int{ids[r.Intn(nCPU)]}
		}
		return s
	}
	delete(in.topoAnno, apiext.AnnotationNodeReservation)
	delete(in.topoAnno, apiext.AnnotationNodeSystemQOSResource)
	var wantRes, wantSys []int
	in.resKind, in.resRaw, in.sysKind, in.sysRaw = 0, nil, 0, nil
	if resShape != 0 {
		res := pick()
		if r.Bool() && nCPU >= 2 {
			res = []int{ids[0], ids[1]}
		}
		switch resShape {
		case 1:
			in.resKind, in.resRaw, wantRes = 1, res, res
			in.topoAnno[apiext.AnnotationNodeReservation] = fmt.Sprintf(`{"reservedCPUs":"%s"}`, c10SetStr(res, r.Intn(2)))
			if r.Bool() {
				in.topoAnno[apiext.AnnotationNodeReservation] = fmt.Sprintf(`{"resources":{"cpu":"%d"},"reservedCPUs":"%s"}`, len(res), c10SetStr(res, r.Intn(2)))
			}
		case 2:
			in.resKind, in.resRaw = 3, res
			in.topoAnno[apiext.AnnotationNodeReservation] = fmt.Sprintf(`{"reservedCPUs":"%s"}`, c10TypoCPUList(res, r.Intn(c10Typos)))
		default:
			in.resKind = 4
			in.topoAnno[apiext.AnnotationNodeReservation] = `{"reservedCPUs":`
		}
		// applyPolicy of the reservation (absent / "" / Default / ReservedCPUsOnly / unknown), cycling with the rounds through
		// the cells: reservedCPUs are kept away from BE under every policy (ReservedCPUsOnly says so in so many words), and an
		// unreadable cpu list stays unreadable
		if pol := c10AnnoPolicyJSON[(cell/c10AnnoCells)%c10AnnoPolicies]; pol != "" && resShape != 3 {
			a := in.topoAnno[apiext.AnnotationNodeReservation]
			in.topoAnno[apiext.AnnotationNodeReservation] = a[:len(a)-1] + pol + "}"
			h.Tag(fmt.Sprintf("anno-cell:res%d-policy-%d", resShape, (cell/c10AnnoCells)%c10AnnoPolicies))
		}
	}
	if sysShape != 0 {
		sys := pick()
		if r.Bool() && nCPU >= 2 {
			sys = []int{ids[nCPU-2], ids[nCPU-1]}
		}
		excl := []string{"", "", `,"cpusetExclusive":true`, `,"cpusetExclusive":false`, "", "", `,"cpusetExclusive":true`, "", `,"cpusetExclusive":false`}[sysShape]
		if sysShape == 7 && r.Bool() {
			excl = `,"cpusetExclusive":true`
		}
		str := ""
		switch sysShape {
		case 1, 2, 3:
			in.sysKind, in.sysRaw = sysShape, sys
			str = c10SetStr(sys, r.Intn(2))
			if sysShape != 3 {
				wantSys = sys
			}
		case 4:
			in.sysKind = 4
		case 5, 6:
			in.sysKind, in.sysRaw = 5, sys
			str = c10TypoCPUList(sys, r.Intn(c10Typos))
		case 7:
			in.sysKind, in.sysRaw = 6, sys
			lo, hi := 1, 3
			if len(sys) > 0 {
				lo, hi = sys[0], sys[len(sys)-1]+1
			}
			str = fmt.Sprintf("%d-%d", hi, lo)
		default:
			in.sysKind, in.sysRaw = 7, sys
			str = c10TypoCPUList(sys, r.Intn(c10Typos))
		}
		in.topoAnno[apiext.AnnotationNodeSystemQOSResource] = fmt.Sprintf(`{"cpuset":"%s"%s}`, str, excl)
		if sysShape == 4 {
			in.topoAnno[apiext.AnnotationNodeSystemQOSResource] = `{"cpuset":[1]}`
			if r.Bool() {
				in.topoAnno[apiext.AnnotationNodeSystemQOSResource] = `{"cpuset":`
			}
		}
	}
	in.ownProtected(wantRes, wantSys)
}

// envTokens: the op tokens describing everything but the budget and the old BE cpuset:
// <n> procs* <np> pods* <resKind> <nr> res* <sysKind> <ns> sys* <topoNil> <kubeletPolicy>
func (in *c10CSIn) envTokens(h *vHarness) []string {
	ps, pods, reserved, sysRaw, sysKind, resKind, topoAnno, topoNil, kp := in.ps, in.pods, in.resRaw, in.sysRaw, in.sysKind, in.resKind, in.topoAnno, in.topoNil, in.kp
	var tok []string
	tok = append(tok, strings.Fields(c10ProcTokens(ps))...)
	tok = append(tok, strconv.Itoa(len(pods)))
	for _, p := range pods {
		tok = append(tok, strconv.Itoa(p.kind), strconv.Itoa(p.qos), strconv.Itoa(p.life))
		if p.kind == 0 {
			tok = append(tok, strconv.Itoa(len(p.cpus)))
			for _, c := range p.cpus {
				tok = append(tok, strconv.Itoa(c))
			}
		} else {
			tok = append(tok, "0")
		}
		if p.qos == c10QLSE && p.kind == 0 && len(p.cpus) > 0 {
			h.Tag(fmt.Sprintf("cpuset:lse-life-%d", p.life))
		}
	}
	// annotation shapes (the model decides what they protect): reservation 0 absent, 1 reservedCPUs parses, 2 unparsable
	// cpuset string, 3 malformed JSON; system QoS 0 absent, 1 cpuset (exclusive by default), 2 cpusetExclusive=true,
	// 3 cpusetExclusive=false, 4 malformed JSON, 5 exclusive cpuset string rejected by cpuset.Parse, 6 exclusive reversed
	// range (parses to the empty set), 7 cpusetExclusive=false with a rejected string (never parsed)
	resTok := 0
	if _, ok := topoAnno[apiext.AnnotationNodeReservation]; ok {
		switch resKind {
		case 3:
			resTok = 2
		case 4:
			resTok = 3
		default:
			resTok = 1
		}
	}
	tok = append(tok, strconv.Itoa(resTok), strconv.Itoa(len(reserved)))
	for _, c := range reserved {
		tok = append(tok, strconv.Itoa(c))
	}
	tok = append(tok, strconv.Itoa(sysKind), strconv.Itoa(len(sysRaw)))
	for _, c := range sysRaw {
		tok = append(tok, strconv.Itoa(c))
	}
	h.Tag(fmt.Sprintf("cpuset:sysqos-kind-%d", sysKind))
	h.Tag(fmt.Sprintf("cpuset:reservation-kind-%d", resTok))
	if resTok == 1 && len(reserved) > 0 && sysKind == 5 {
		h.Tag("cpuset:reservation-valid+sysqos-rejected")
	}
	tok = append(tok, strconv.Itoa(vB(topoNil)), strconv.Itoa(kp))

	h.Tag(fmt.Sprintf("cpuset:kubelet-policy-%d", kp))
	return tok
}

// build: the real pod / topology objects of the input.
func (in *c10CSIn) build(h *vHarness, r *vRand) ([]*statesinformer.PodMeta, *topov1alpha1.NodeResourceTopology) {
	pods, topoAnno, topoNil := in.pods, in.topoAnno, in.topoNil
	var metas []*statesinformer.PodMeta
	for i, p := range pods {
		pod := &corev1.Pod{ObjectMeta: metav1.ObjectMeta{Name: fmt.Sprintf("p%d", i), Namespace: "ns", UID: types.UID(fmt.Sprintf("u%d", i))}}
		if p.qos != c10QNone {
			pod.Labels = map[string]string{apiext.LabelPodQoS: c10QoSNames[p.qos]}
		}
		switch p.kind {
		case 0:
			b, _ := json.Marshal(&apiext.ResourceStatus{CPUSet: c10SetStr(p.cpus, p.style)})
			pod.Annotations = map[string]string{apiext.AnnotationResourceStatus: string(b)}
		case 2:
			pod.Annotations = map[string]string{apiext.AnnotationResourceStatus: `{"cpuset": 12`}
		case 3:
			pod.Annotations = map[string]string{apiext.AnnotationResourceStatus: `{"cpuset": ""}`}
		case 4:
			pod.Annotations = map[string]string{apiext.AnnotationResourceStatus: `{"cpuset": "0-"}`}
		}
		c10ApplyLife(pod, p.life)
		// PodMeta.CgroupDir: empty (as the package's own fixtures leave it) or the pod's cgroup directory -- for a BE pod one
		// of the BE pod dirs of the temp tree (pod1 / pod2), whose containers the suppress path must still write although the
		// pod carries a cpuset annotation (BECPUManager gate off); for the other classes a directory outside the BE tree
		meta := &statesinformer.PodMeta{Pod: pod}
		if r.Bool() {
			if p.qos == c10QBE {
				meta.CgroupDir = filepath.Join(koordletutil.GetPodQoSRelativePath(corev1.PodQOSBestEffort), fmt.Sprintf("pod%d", 1+i%2))
				if p.kind == 0 && len(p.cpus) > 0 {
					h.Tag("cpuset:be-pod-with-cpuset-in-be-cgroup")
				}
			} else {
				meta.CgroupDir = filepath.Join(koordletutil.GetPodQoSRelativePath(corev1.PodQOSBurstable), fmt.Sprintf("pod-u%d", i))
			}
		}
		metas = append(metas, meta)
	}
	var topo *topov1alpha1.NodeResourceTopology
	if !topoNil {
		topo = &topov1alpha1.NodeResourceTopology{ObjectMeta: metav1.ObjectMeta{Name: "n"}}
		if len(topoAnno) > 0 || r.Bool() {
			topo.Annotations = topoAnno
		}
	} else {
		h.Tag("cpuset:topo-nil")
	}
	return metas, topo
}

// c10CSObs: what one round left behind, as the oracle needs it.
type c10CSObs struct {
	final        []int // the set BE containers end up with (container level under the static policy, root otherwise)
	written      bool
	rootSet      []int
	rootChanged  bool
	beset        []int
	besetOK      bool
	checkRecover bool
	recoverOnly  bool // only the "no protected CPU" clauses, on a set produced by the recover path
	childDiffers bool
	oldLen       int
}

// c10CSOracle: the cpuset clauses of the statement, from scratch.  budgets = the budget values the statement allows
// (one for a direct call; two when the budget is derived and the float round trip of the reservation may lose 1 milli).
func c10CSOracle(h *vHarness, in *c10CSIn, budgets []int64, o c10CSObs) {
	ids, nCPU, pods, reserved, sysCPUs, topoNil, kp := in.ids, in.nCPU, in.pods, in.reserved, in.sysCPUs, in.topoNil, in.kp
	final, written, rootSet, beset, besetOK := o.final, o.written, o.rootSet, o.beset, o.besetOK
	budget := budgets[0]
	exist := map[int]bool{}
	for _, c := range ids {
		exist[c] = true
	}
	resSet := map[int]bool{}
	for _, c := range reserved {
		resSet[c] = true
	}
	sysSet := map[int]bool{}
	for _, c := range sysCPUs {
		sysSet[c] = true
	}
	owners := map[int]map[int]bool{} // cpu -> set of QoS classes of the pods in the list whose annotation names it (any lifecycle state)
	for _, p := range pods {
		if p.kind != 0 {
			continue
		}
		for _, c := range p.cpus {
			if owners[c] == nil {
				owners[c] = map[int]bool{}
			}
			owners[c][p.qos] = true
		}
	}
	lseExclusive := func(c int) bool { return len(owners[c]) == 1 && owners[c][c10QLSE] }
	ambiguous := false // a CPU claimed by an LSE pod and by a pod of another class: ownership is not exclusive
	for _, o := range owners {
		if o[c10QLSE] && len(o) > 1 {
			ambiguous = true
		}
	}
	eligibleN := 0
	for _, c := range ids {
		if !resSet[c] && !sysSet[c] && !lseExclusive(c) {
			eligibleN++
		}
	}
	want := c10CeilDiv(budget, 1000)
	if fc := int64(math.Ceil(float64(budget) / 1000)); fc != want {
		h.Fail("C10:float-assumption", "ceil(%d/1000) float %d != %d", budget, fc, want)
	}
	if want < 2 {
		want = 2
	}
	step := c10CeilDiv(int64(nCPU), 10)
	if fs := int64(math.Ceil(float64(nCPU) * 0.1)); fs != step {
		h.Fail("C10:float-assumption", "ceil(%d*0.1) float %d != %d", nCPU, fs, step)
	}
	if want-int64(o.oldLen) > step {
		want = int64(o.oldLen) + step
		h.Tag("cpuset:step-limited")
	}
	enough := int64(eligibleN) >= want
	protected := func(prefix string, set []int) {
		for _, c := range set {
			switch {
			case !exist[c]:
				h.Fail("C10:"+prefix+"-unknown-cpu", "cpu %d written to the BE cpuset does not exist", c)
			case resSet[c]:
				h.Fail("C10:"+prefix+"-reserved-cpu", "cpu %d is reserved by the node annotation", c)
			case sysSet[c]:
				h.Fail("C10:"+prefix+"-system-cpu", "cpu %d is exclusive to system QoS", c)
			case lseExclusive(c):
				h.Fail("C10:"+prefix+"-lse-cpu", "cpu %d is exclusively owned by an LSE pod that is still in the pod list", c)
			}
		}
	}
	if o.recoverOnly {
		protected("recover", final)
		return
	}
	if len(budgets) > 1 {
		if alt := c10WantCPUs(budgets[1], nCPU, o.oldLen); alt == int64(len(final)) && alt != want {
			want = alt // the other admissible budget explains the count
			enough = int64(eligibleN) >= want
		}
	}
	if written {
		h.Tag("cpuset:written")
		if eligibleN > 0 {
			h.Nontrivial()
		}
		protected("cpuset", final)
		if int64(len(final)) > want {
			h.Fail("C10:cpuset-over-budget", "%d cpus written, budget allows %d (budget %dm, old %d, step %d)", len(final), want, budget, o.oldLen, step)
		}
		if enough && !ambiguous && int64(len(final)) != want {
			h.Fail("C10:cpuset-count", "%d eligible cpus >= %d wanted, but %d distinct cpus written", eligibleN, want, len(final))
		}
	} else {
		h.Tag("cpuset:untouched")
		// the updater skips a write whose value equals the file's current set: an unchanged file is
		// fine iff its content already is a valid answer.  Without a topology object or with an
		// unreadable kubelet-policy annotation the agent cannot act at all (degenerate input, tagged).
		if topoNil || kp == 2 {
			h.Tag("cpuset:cannot-act")
		} else if enough && !ambiguous && eligibleN > 0 {
			okAnswer := int64(len(final)) == want
			for _, c := range final {
				if !exist[c] || resSet[c] || sysSet[c] || lseExclusive(c) {
					okAnswer = false
				}
			}
			if !okAnswer {
				h.Fail("C10:cpuset-count", "%d eligible cpus >= %d wanted, but the BE cpuset was left at %v", eligibleN, want, final)
			} else {
				h.Tag("cpuset:already-right")
			}
		}
	}
	// static policy: the BE root / pod dirs are rewritten by the recover path; they must not gain protected CPUs either
	if kp == 1 && o.rootChanged {
		h.Tag("cpuset:static-root-recovered")
		protected("cpuset", rootSet)
	}
	// the recover path (calcBECPUSet) on the same inputs: no protected CPU (here ANY LSE claim protects), and
	// it must agree with the suppress path about which CPUs BE may get
	if besetOK {
		inBE := map[int]bool{}
		for _, c := range beset {
			inBE[c] = true
		}
		protected("recover", beset)
		anyLSE := func(c int) bool { return owners[c][c10QLSE] }
		for _, c := range ids {
			if !resSet[c] && !sysSet[c] && !anyLSE(c) && !inBE[c] {
				h.Fail("C10:cpuset-paths-disagree", "cpu %d is eligible for the suppress path but missing from the recover path's BE cpuset %v", c, beset)
			}
		}
		if written && !ambiguous {
			for _, c := range final {
				if !inBE[c] {
					h.Fail("C10:cpuset-paths-disagree", "cpu %d written by adjustByCPUSet is excluded by calcBECPUSet (%v)", c, beset)
				}
			}
		}
	} else if !topoNil && o.checkRecover {
		h.Fail("C10:cpuset-paths-disagree", "calcBECPUSet failed although a topology object exists")
	}
	switch {
	case eligibleN == 0:
		h.Tag("cpuset:none-eligible")
	case enough:
		h.Tag("cpuset:enough")
	default:
		h.Tag("cpuset:budget-above-free")
	}
	if ambiguous {
		h.Tag("cpuset:overlapping-lse")
	}
	if written && o.childDiffers && kp != 1 {
		h.Tag("cpuset:child-differs")
	}
}

// c10WantCPUs: ceil(budget/1000), at least 2, at most |old| + ceil(n/10).
func c10WantCPUs(budget int64, nCPU, oldLen int) int64 {
	want := c10CeilDiv(budget, 1000)
	if want < 2 {
		want = 2
	}
	if step := c10CeilDiv(int64(nCPU), 10); want-int64(oldLen) > step {
		want = int64(oldLen) + step
	}
	return want
}

func c10CaseCPUSet(t *testing.T, h *vHarness, r *vRand, cg *c10Cgroup, beDir string, j int) {
	in := c10GenCPUSet(r)
	if j%3 == 0 { // systematic stream: every cell of {reservation shape} x {system-QoS shape}
		c10ApplyAnnoCell(h, r, in, j/3)
	}
	c10RunCPUSet(t, h, r, cg, beDir, in)
}

// c10RunCPUSet: one cpuset case on a given input: calcBECPUSet, then adjustByCPUSet, on the same informer state.
func c10RunCPUSet(t *testing.T, h *vHarness, r *vRand, cg *c10Cgroup, beDir string, in *c10CSIn) {
	ps, ids, budget, old, kp := in.ps, in.ids, in.budget, in.old, in.kp
	tok := []string{"cpuset", strconv.FormatInt(budget, 10), strconv.Itoa(len(old))}
	for _, c := range old {
		tok = append(tok, strconv.Itoa(c))
	}
	tok = append(tok, in.envTokens(h)...)
	h.Op("%s", strings.Join(tok, " "))
	h.Tag("kind:cpuset")
	metas, topo := in.build(h, r)
	info := &metriccache.NodeCPUInfo{ProcessorInfos: ps}
	ctrl := gomock.NewController(t)
	si := mockstatesinformer.NewMockStatesInformer(ctrl)
	si.EXPECT().GetAllPods().Return(metas).AnyTimes()
	si.EXPECT().GetNodeTopo().Return(topo).AnyTimes()
	mc := mockmetriccache.NewMockMetricCache(ctrl)
	mc.EXPECT().Get(metriccache.NodeCPUInfoKey).Return(info, true).AnyTimes()
	s, stop := c10NewSuppress(si)
	s.metricCache = mc
	defer close(stop)

	oldStr := c10SetStr(old, 2) + "\n" // non-canonical + trailing newline: the code never writes this form
	cg.write(t, koordletutil.GetPodQoSRelativePath(corev1.PodQOSGuaranteed), system.CPUSet, c10SetStr(ids, 0))
	podDir, contDir := filepath.Join(beDir, "pod1"), filepath.Join(beDir, "pod1", "c1")
	allDirs := []string{beDir, podDir, contDir, filepath.Join(beDir, "pod2"), filepath.Join(beDir, "pod2", "c2"), filepath.Join(beDir, "pod2", "c3")}
	for _, d := range allDirs {
		cg.write(t, d, system.CPUSet, oldStr)
	}
	// ---- path 2 first (pure): calcBECPUSet on the same informer state
	var beset []int
	besetOK := false
	if h.Guard(func() {
		if bs, err := s.calcBECPUSet(); err == nil && bs != nil {
			beset, besetOK = bs.ToSlice(), true
		}
	}) {
		h.Obs("panic")
		h.Fail("C10:panic", "calcBECPUSet panicked: %v", h.extra["last_panic"])
		return
	}
	// ---- path 1: adjustByCPUSet
	q := resource.NewMilliQuantity(budget, resource.DecimalSI)
	if h.Guard(func() { s.adjustByCPUSet(q, info) }) {
		h.Obs("panic")
		h.Fail("C10:panic", "adjustByCPUSet panicked: %v", h.extra["last_panic"])
		return
	}
	readSet := func(dir, tag string) ([]int, string, bool) {
		raw := cg.read(t, dir, system.CPUSet)
		set, err := c10ParseFile(raw)
		if err != nil {
			h.Obs("%s unparsable", tag)
			h.Fail("C10:cpuset-unparsable", "cpuset.cpus content %q in %s", raw, dir)
			return nil, raw, false
		}
		sl := set.ToSlice()
		xs := make([]int64, len(sl))
		for i, c := range sl {
			xs[i] = int64(c)
		}
		h.Obs("%s", strings.TrimSpace(tag+" "+vInts(xs)))
		return sl, raw, true
	}
	rootSet, rootRaw, ok1 := readSet(beDir, "set")
	_, podRaw, ok2 := readSet(podDir, "pod")
	contSet, contRaw, ok3 := readSet(contDir, "cont")
	if !ok1 || !ok2 || !ok3 {
		return
	}
	if besetOK {
		xs := make([]int64, len(beset))
		for i, c := range beset {
			xs[i] = int64(c)
		}
		h.Obs("%s", strings.TrimSpace("beset "+vInts(xs)))
	} else {
		h.Obs("beset err")
	}
	// the set BE containers end up with: container level under the static policy, every level otherwise
	final, raw := rootSet, rootRaw
	if kp == 1 {
		final, raw = contSet, contRaw
	}
	written := raw != oldStr
	c10CSOracle(h, in, []int64{budget}, c10CSObs{final: final, written: written, rootSet: rootSet, rootChanged: rootRaw != oldStr,
		beset: beset, besetOK: besetOK, checkRecover: true, childDiffers: podRaw != raw || contRaw != raw, oldLen: len(old)})
}

func c10CaseQuota(t *testing.T, h *vHarness, r *vRand, cg *c10Cgroup, beDir string) {
	capMilli := int64(r.Range(1, 96)) * 1000
	if r.Chance(1, 8) {
		capMilli += r.Pick([]int64{1, 500, 999})
	}
	cores := c10CeilDiv(capMilli, 1000)
	var budget int64
	switch r.Intn(8) {
	case 0:
		budget = int64(r.Range(-3000, 30))
	case 1:
		budget = int64(r.Range(0, 60))
	default:
		budget = int64(r.Range(0, int(capMilli)))
	}
	target := budget * 100000 / 1000
	if target < 2000 {
		target = 2000
	}
	var cur int64
	switch r.Intn(8) {
	case 0:
		cur = -1
	case 1:
		cur = 2000
	case 2, 3: // near the target: around the 1% bypass boundary
		cur = target + int64(r.Range(-2, 2))*cores*500 + int64(r.Range(-1, 1))
	case 4: // around the 10% step boundary below the target
		cur = target - cores*10000 + int64(r.Range(-2, 2))
	default:
		cur = int64(r.Range(0, int(capMilli))) * 100
	}
	if cur < -1 {
		cur = -1
	}
	// BE currently unlimited (-1) and a finite target inside the 1 % bypass band, i.e. 2000 < target < capacity x 1000 - 1
	// (budget between 20m and 1 % of the node): before repair 4d853b2 nothing was written and BE stayed unlimited
	if r.Chance(1, 6) && cores >= 3 {
		cur = -1
		budget = int64(r.Range(21, int(cores*10-1)))
		target = budget * 100
	}
	h.Op("quota %d %d %d", budget, cur, capMilli)
	h.Tag("kind:quota")
	node := &corev1.Node{ObjectMeta: metav1.ObjectMeta{Name: "n"}, Status: corev1.NodeStatus{
		Capacity: corev1.ResourceList{corev1.ResourceCPU: *resource.NewMilliQuantity(capMilli, resource.DecimalSI)}}}
	// cgroup v1: cpu.cfs_quota_us = "<n>" | "-1";  cgroup v2: cpu.max = "<n> <period>" | "max <period>"
	v2 := r.Chance(1, 3)
	quotaFile := system.Resource(system.CPUCFSQuota)
	initial := strconv.FormatInt(cur, 10) + "\n"
	if v2 {
		h.Tag("quota:cgroup-v2")
		quotaFile = system.CPUCFSQuotaV2
		initial = strconv.FormatInt(cur, 10) + " 100000\n"
		if cur == -1 {
			initial = "max 100000\n"
		}
		system.UseCgroupsV2.Store(true)
		defer system.UseCgroupsV2.Store(false)
	}
	cg.write(t, beDir, quotaFile, initial)
	s, stop := c10NewSuppress(nil) // picks the cgroup reader of the current cgroup version
	defer close(stop)
	if h.Guard(func() { s.adjustByCfsQuota(resource.NewMilliQuantity(budget, resource.DecimalSI), node) }) {
		h.Obs("panic")
		h.Fail("C10:panic", "adjustByCfsQuota panicked")
		return
	}
	raw := cg.read(t, beDir, quotaFile)
	first := strings.TrimSpace(raw)
	if v2 && raw == initial { // untouched cpu.max: "<quota> <period>"
		if first = strings.Fields(raw)[0]; first == "max" {
			first = "-1"
		}
	}
	got, err := strconv.ParseInt(first, 10, 64)
	if err != nil {
		h.Obs("quota unparsable")
		h.Fail("C10:quota-unparsable", "cpu.cfs_quota_us content %q", raw)
		return
	}
	h.Obs("quota %d", got)
	written := !strings.HasSuffix(raw, "\n")
	if written {
		h.Nontrivial()
	}
	if cur == -1 {
		h.Tag("quota:from-unset")
		if target != 2000 && target+1 < cores*1000 {
			h.Tag("quota:from-unset-inside-bypass-band")
		}
	}
	// oracle: budget x period floored by the minimum; the two documented exceptions are the 1% bypass and the 10% step
	diff := target - cur
	if diff < 0 {
		diff = -diff
	}
	// FloatOK.bypass_iff / step_iff / stepInc_eq on this input
	if (math.Abs(float64(target)-float64(cur)) < float64(cores)*100000*0.01) != (diff < cores*1000) ||
		(float64(target)-float64(cur) > float64(cores)*100000*0.1) != (target-cur > cores*10000) ||
		int64(float64(cores)*100000*0.1) != cores*10000 {
		h.Fail("C10:float-assumption", "capacity %d target %d current %d: float64 comparison differs from the exact one", cores, target, cur)
	}
	switch {
	case got == target:
		h.Tag("quota:target")
	case cur == -1 && got == -1:
		// the "current quota" -1 is the unlimited sentinel, not a number 1 % away from the target:
		// BE keeps running without any quota although the budget is finite
		h.Fail("C10:quota-stays-unlimited", "budget %dm => target quota %d, but cpu.cfs_quota_us stays -1 (unlimited), capacity %d CPUs",
			budget, target, cores)
	case got == cur && !written && diff < cores*1000 && target != 2000:
		h.Tag("quota:bypass")
	case cur != -1 && target-cur > cores*10000 && got == cur+cores*10000:
		h.Tag("quota:step")
	default:
		h.Fail("C10:quota-value", "quota %d; budget %dm x period = %d (min 2000), current %d, capacity %d CPUs", got, budget, target, cur, cores)
	}
	if written && got < 2000 && cur >= 2000 {
		h.Fail("C10:quota-below-min", "quota %d written below the minimum 2000", got)
	}
}
