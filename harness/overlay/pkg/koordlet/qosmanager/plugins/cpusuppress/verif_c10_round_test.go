//go:build verif

package cpusuppress

import (
	"errors"
	"fmt"
	"io"
	"path/filepath"
	"sort"
	"strconv"
	"strings"
	"testing"
	"time"

	topov1alpha1 "github.com/k8stopologyawareschedwg/noderesourcetopology-api/pkg/apis/topology/v1alpha1"
	promstorage "github.com/prometheus/prometheus/storage"
	"go.uber.org/mock/gomock"
	corev1 "k8s.io/api/core/v1"
	"k8s.io/klog/v2"

	slov1alpha1 "github.com/koordinator-sh/koordinator/apis/slo/v1alpha1"
	"github.com/koordinator-sh/koordinator/pkg/features"
	"github.com/koordinator-sh/koordinator/pkg/koordlet/metriccache"
	mockmetriccache "github.com/koordinator-sh/koordinator/pkg/koordlet/metriccache/mockmetriccache"
	"github.com/koordinator-sh/koordinator/pkg/koordlet/statesinformer"
	mockstatesinformer "github.com/koordinator-sh/koordinator/pkg/koordlet/statesinformer/mockstatesinformer"
	koordletutil "github.com/koordinator-sh/koordinator/pkg/koordlet/util"
	"github.com/koordinator-sh/koordinator/pkg/koordlet/util/system"
)

// C10 "round" harness: whole rounds of the REAL suppressBECPU() — NodeSLO feature switch, metric collection, budget,
// mode dispatch (cpuset / cfsQuota), recovery of the other mode — as histories of 1-3 rounds on one CPUSuppress object
// and one cgroup tree.  The budget is never observed directly: it has to arrive in the BE cpuset size / the BE quota.

// ---- fake metric results (the metric cache is a gomock; results and queriers are these)

type c10FakeResult struct {
	kind  string
	props map[string]string
	val   float64
	has   bool
}

func (f *c10FakeResult) GetKind() string                    { return f.kind }
func (f *c10FakeResult) GetProperties() map[string]string   { return f.props }
func (f *c10FakeResult) AddSeries(promstorage.Series) error { return nil }
func (f *c10FakeResult) Count() int {
	if f.has {
		return 1
	}
	return 0
}
func (f *c10FakeResult) Value(metriccache.AggregationType) (float64, error) {
	if !f.has {
		return 0, errors.New("no sample")
	}
	return f.val, nil
}
func (f *c10FakeResult) TimeRangeDuration() time.Duration { return time.Minute }

func c10MetaKey(m metriccache.MetricMeta) string {
	ps := m.GetProperties()
	ks := make([]string, 0, len(ps))
	for k := range ps {
		ks = append(ks, k)
	}
	sort.Strings(ks)
	s := m.GetKind()
	for _, k := range ks {
		s += "|" + k + "=" + ps[k]
	}
	return s
}

type c10FakeFactory struct{ vals map[string]float64 }

func (f *c10FakeFactory) New(meta metriccache.MetricMeta) metriccache.AggregateResult {
	v, ok := f.vals[c10MetaKey(meta)]
	return &c10FakeResult{kind: meta.GetKind(), props: meta.GetProperties(), val: v, has: ok}
}

type c10FakeQuerier struct{}

func (c10FakeQuerier) Query(metriccache.MetricMeta, *metriccache.QueryHints, metriccache.MetricResult) error {
	return nil
}
func (c10FakeQuerier) QueryAndClose(metriccache.MetricMeta, *metriccache.QueryHints, metriccache.MetricResult) error {
	return nil
}
func (c10FakeQuerier) Close() {}

func TestVerifC10Round(t *testing.T) {
	h := vOpen("C10")
	if h == nil {
		t.Skip("VERIF_OUT not set")
	}
	klog.LogToStderr(false)
	klog.SetOutput(io.Discard)
	cg := c10NewCgroup(t)
	beDir := koordletutil.GetPodQoSRelativePath(corev1.PodQOSBestEffort)
	oldFactory := metriccache.DefaultAggregateResultFactory
	defer func() { metriccache.DefaultAggregateResultFactory = oldFactory }()
	if err := features.DefaultMutableKoordletFeatureGate.SetFromMap(map[string]bool{
		string(features.BECPUManager): false, string(features.BECPUSuppress): true}); err != nil {
		t.Fatal(err)
	}
	n := h.N(1500, 30000)
	for idx := 0; idx < n; idx++ {
		r := h.Begin(idx)
		if r == nil {
			continue
		}
		c10CaseRound(t, h, r, cg, beDir, idx)
		h.End()
	}
	h.Close("histories of 1-3 rounds of suppressBECPU on one agent object and one cgroup tree: environment as in the cpuset cases (topology, " +
		"pods with cpuset annotations and lifecycle states, reserved / system-QoS cpus, kubelet policy; every third history one cell of the product " +
		"{reservation shape} x {system-QoS shape} incl. cpu lists rejected by cpuset.Parse, see the suppress harness), per round a fresh budget input " +
		"(as in the budget cases, metrics through the metric-cache querier), NodeSLO nil / without enable / disabled / enabled, mode cpuset or " +
		"cfsQuota (switching between rounds), steady rounds (same node, usage drifting <= 1/4 CPU: 1 % bypass band), node nil, empty pod list, node metric or " +
		"NodeCPUInfo missing; non-trivial = a round that acts and changes a file")
}

func c10CaseRound(t *testing.T, h *vHarness, r *vRand, cg *c10Cgroup, beDir string, idx int) {
	cs := c10GenCPUSet(r)
	if len(cs.ps) == 0 || r.Chance(9, 10) {
		cs.topoNil = false
	}
	if idx%3 == 0 { // systematic stream: every cell of {reservation shape} x {system-QoS shape}, suppress and recover rounds
		c10ApplyAnnoCell(h, r, cs, idx/3)
	}
	envTok := cs.envTokens(h)
	csNoPods := *cs // the same node when the informer reports no pod at all
	csNoPods.pods = nil
	envTokNoPods := csNoPods.envTokens(h)
	csMetas, topo := cs.build(h, r)
	old := cs.old
	cur := int64(-1)
	switch r.Intn(4) {
	case 0:
		cur = 2000
	case 1, 2:
		cur = int64(r.Range(1, 64)) * 50000
	}
	{
		tok := []string{"rinit", strconv.FormatInt(cur, 10), strconv.Itoa(len(old))}
		for _, c := range old {
			tok = append(tok, strconv.Itoa(c))
		}
		h.Op("%s", strings.Join(tok, " "))
	}
	h.Tag("kind:round")

	// ---- cgroup tree
	oldStr := c10SetStr(old, 2) + "\n"
	cg.write(t, koordletutil.GetPodQoSRelativePath(corev1.PodQOSGuaranteed), system.CPUSet, c10SetStr(cs.ids, 0))
	podDir, contDir := filepath.Join(beDir, "pod1"), filepath.Join(beDir, "pod1", "c1")
	for _, d := range []string{beDir, podDir, contDir, filepath.Join(beDir, "pod2"), filepath.Join(beDir, "pod2", "c2"), filepath.Join(beDir, "pod2", "c3")} {
		cg.write(t, d, system.CPUSet, oldStr)
	}
	cg.write(t, beDir, system.CPUCFSQuota, strconv.FormatInt(cur, 10)+"\n")

	// ---- one agent object for the whole history; the mocks read the current round's values
	var (
		curMetas []*statesinformer.PodMeta
		curNode  *corev1.Node
		curSLO   *slov1alpha1.NodeSLO
		curInfo  interface{}
		infoOK   bool
	)
	factory := &c10FakeFactory{vals: map[string]float64{}}
	metriccache.DefaultAggregateResultFactory = factory
	ctrl := gomock.NewController(t)
	si := mockstatesinformer.NewMockStatesInformer(ctrl)
	si.EXPECT().GetAllPods().DoAndReturn(func() []*statesinformer.PodMeta { return curMetas }).AnyTimes()
	si.EXPECT().GetNode().DoAndReturn(func() *corev1.Node { return curNode }).AnyTimes()
	si.EXPECT().GetNodeSLO().DoAndReturn(func() *slov1alpha1.NodeSLO { return curSLO }).AnyTimes()
	si.EXPECT().GetNodeTopo().DoAndReturn(func() *topov1alpha1.NodeResourceTopology { return topo }).AnyTimes()
	mc := mockmetriccache.NewMockMetricCache(ctrl)
	mc.EXPECT().Get(metriccache.NodeCPUInfoKey).DoAndReturn(func(interface{}) (interface{}, bool) { return curInfo, infoOK }).AnyTimes()
	mc.EXPECT().Querier(gomock.Any(), gomock.Any()).Return(c10FakeQuerier{}, nil).AnyTimes()
	s, stop := c10NewSuppress(si)
	s.metricCache = mc
	defer close(stop)

	readLevel := func(dir, tag string) ([]int, string, bool) {
		raw := cg.read(t, dir, system.CPUSet)
		set, err := c10ParseFile(raw)
		if err != nil {
			h.Obs("%s unparsable", tag)
			h.Fail("C10:cpuset-unparsable", "cpuset.cpus content %q in %s", raw, dir)
			return nil, raw, false
		}
		sl := set.ToSlice()
		xs := make([]int64, len(sl))
		for i, c := range sl {
			xs[i] = int64(c)
		}
		h.Obs("%s", strings.TrimSpace(tag+" "+vInts(xs)))
		return sl, raw, true
	}

	prevRoot, prevRootRaw, prevContRaw, prevQuota := append([]int(nil), old...), oldStr, oldStr, cur
	prevMode := -1
	rounds := r.Range(1, 3)
	var prevIn c10BudgetIn
	prevQuotaMode := false
	for rd := 0; rd < rounds; rd++ {
		in := c10GenBudget(r, idx*3+rd)
		steady := rd > 0 && r.Chance(1, 3) // same node, usage drifting by at most 1/4 CPU: the quota target moves inside the 1 % band
		if steady {
			in = prevIn
			in.pods = append([]c10Pod(nil), prevIn.pods...)
			in.node8 += int64(r.Range(0, 2))
			h.Tag("round:steady")
		}
		prevIn = in
		for i := range in.pods {
			in.pods[i].hasMeta = true // metrics are only queried for the pods of the informer
		}
		o := c10BuildBudget(h, in)
		sloKind := 3
		switch r.Intn(40) {
		case 0:
			sloKind = 0
		case 1:
			sloKind = 1
		case 2, 3, 4, 5, 6:
			sloKind = 2
		}
		quotaMode := r.Chance(2, 5)
		if steady && r.Chance(3, 4) {
			quotaMode = prevQuotaMode
		}
		prevQuotaMode = quotaMode
		nodeNil := r.Chance(1, 40)
		nodeMetric := !r.Chance(1, 30)
		infoMissing := r.Chance(1, 40)
		curMetas = append(append([]*statesinformer.PodMeta(nil), o.metas...), csMetas...)
		env, envT := cs, envTok
		if r.Chance(1, 40) {
			curMetas, env, envT = nil, &csNoPods, envTokNoPods
		}
		curNode = o.node
		if nodeNil {
			curNode = nil
		}
		curInfo, infoOK = &metriccache.NodeCPUInfo{ProcessorInfos: cs.ps}, true
		if infoMissing {
			curInfo, infoOK = nil, false
		}
		thr := in.thr
		strat := &slov1alpha1.ResourceThresholdStrategy{CPUSuppressThresholdPercent: &thr, CPUSuppressMinPercent: o.minP}
		if quotaMode {
			strat.CPUSuppressPolicy = slov1alpha1.CPUCfsQuotaPolicy
		} else if r.Bool() {
			strat.CPUSuppressPolicy = slov1alpha1.CPUSetPolicy
		}
		switch sloKind {
		case 2:
			f := false
			strat.Enable = &f
		case 3:
			tr := true
			strat.Enable = &tr
		}
		curSLO = &slov1alpha1.NodeSLO{Spec: slov1alpha1.NodeSLOSpec{ResourceUsedThresholdWithBE: strat, HostApplications: o.apps}}
		if sloKind == 0 {
			curSLO = nil
		}
		// metrics of this round
		factory.vals = map[string]float64{}
		if nodeMetric {
			m, _ := metriccache.NodeCPUUsageMetric.BuildQueryMeta(nil)
			factory.vals[c10MetaKey(m)] = float64(in.node8) / 8
		}
		for uid, v := range o.podMetrics {
			m, _ := metriccache.PodCPUUsageMetric.BuildQueryMeta(metriccache.MetricPropertiesFunc.Pod(uid))
			factory.vals[c10MetaKey(m)] = v
		}
		for name, v := range o.appMetrics {
			m, _ := metriccache.HostAppCPUUsageMetric.BuildQueryMeta(metriccache.MetricPropertiesFunc.HostApplication(name))
			factory.vals[c10MetaKey(m)] = v
		}

		h.Op("rbudget %s", o.opTokens)
		h.Op("round %d %d %d %d %d %d %s", sloKind, vB(quotaMode), vB(nodeNil), len(curMetas), vB(nodeMetric), vB(infoMissing), strings.Join(envT, " "))
		if h.Guard(func() { s.suppressBECPU() }) {
			h.Obs("panic")
			h.Fail("C10:panic", "suppressBECPU panicked: %v", h.extra["last_panic"])
			return
		}
		rootSet, rootRaw, ok1 := readLevel(beDir, "set")
		_, podRaw, ok2 := readLevel(podDir, "pod")
		contSet, contRaw, ok3 := readLevel(contDir, "cont")
		if !ok1 || !ok2 || !ok3 {
			return
		}
		qRaw := cg.read(t, beDir, system.CPUCFSQuota)
		gotQ, err := strconv.ParseInt(strings.TrimSpace(qRaw), 10, 64)
		if err != nil {
			h.Obs("quota unparsable")
			h.Fail("C10:quota-unparsable", "cpu.cfs_quota_us content %q", qRaw)
			return
		}
		h.Obs("quota %d", gotQ)

		acts := sloKind == 3 && !nodeNil && len(curMetas) > 0 && nodeMetric && !infoMissing
		mode := 0
		if quotaMode {
			mode = 1
		}
		h.Tag(fmt.Sprintf("round:slo-%d", sloKind))
		if acts {
			h.Tag(fmt.Sprintf("round:acts-mode-%d", mode))
			if prevMode >= 0 && prevMode != mode {
				h.Tag("round:mode-switch")
			}
			prevMode = mode
			if rootRaw != prevRootRaw || contRaw != prevContRaw || gotQ != prevQuota {
				h.Nontrivial()
			}
			// ---- oracle: the statement end to end.  The budget the statement prescribes (want, or want+1 when the node
			// reservation binds and its float round trip may lose a milli-CPU) must show in the cpuset size / the quota.
			want, resBinding, _, _, _ := c10BudgetStatement(h, in, o.annoEff)
			c10TagAnnoBinds(h, in, o.annoEff, resBinding, "round")
			budgets := []int64{c10BudgetFloor(in, want)}
			if resBinding && c10BudgetFloor(in, want+1) != budgets[0] {
				budgets = append(budgets, c10BudgetFloor(in, want+1))
			}
			if !quotaMode {
				final, raw, prevRaw := rootSet, rootRaw, prevRootRaw
				if cs.kp == 1 {
					final, raw, prevRaw = contSet, contRaw, prevContRaw
				}
				c10CSOracle(h, env, budgets, c10CSObs{final: final, written: raw != prevRaw, rootSet: rootSet, rootChanged: rootRaw != prevRootRaw,
					childDiffers: podRaw != raw || contRaw != raw, oldLen: len(prevRoot)})
			} else {
				cores := c10CeilDiv(in.capMilli, 1000)
				explained := false
				var target int64
				for _, b := range budgets {
					target = b * 100
					if target < 2000 {
						target = 2000
					}
					diff := target - prevQuota
					if diff < 0 {
						diff = -diff
					}
					switch {
					case gotQ == target:
						explained = true
					case gotQ == prevQuota && prevQuota != -1 && diff < cores*1000 && target != 2000:
						explained = true
						h.Tag("round:quota-bypass")
					case prevQuota != -1 && target-prevQuota > cores*10000 && gotQ == prevQuota+cores*10000:
						explained = true
						h.Tag("round:quota-step")
					}
					if explained {
						break
					}
				}
				if gotQ == -1 {
					h.Fail("C10:quota-stays-unlimited", "quota mode, budget %dm, but cpu.cfs_quota_us stays -1 (unlimited)", budgets[0])
				} else if !explained {
					h.Fail("C10:quota-value", "quota %d; budget %dm x period = %d (min 2000), current %d, capacity %d CPUs", gotQ, budgets[0], target, prevQuota, cores)
				}
				// the cpuset is handed back by the recover path: it must not contain protected CPUs
				if rootRaw != prevRootRaw {
					c10CSOracle(h, env, budgets, c10CSObs{final: rootSet, recoverOnly: true})
				}
			}
		}
		prevRoot, prevRootRaw, prevContRaw, prevQuota = rootSet, rootRaw, contRaw, gotQ
	}
}
