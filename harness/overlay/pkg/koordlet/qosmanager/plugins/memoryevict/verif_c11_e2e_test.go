//go:build verif

package memoryevict

import (
	"fmt"
	"math/big"
	"sort"
	"strings"
	"testing"
	"time"

	"go.uber.org/mock/gomock"
	corev1 "k8s.io/api/core/v1"
	"k8s.io/apimachinery/pkg/api/resource"
	"k8s.io/component-base/featuregate"
	"k8s.io/utils/ptr"

	apiext "github.com/koordinator-sh/koordinator/apis/extension"
	slov1alpha1 "github.com/koordinator-sh/koordinator/apis/slo/v1alpha1"
	"github.com/koordinator-sh/koordinator/pkg/features"
	"github.com/koordinator-sh/koordinator/pkg/koordlet/metriccache"
	mock_metriccache "github.com/koordinator-sh/koordinator/pkg/koordlet/metriccache/mockmetriccache"
	maframework "github.com/koordinator-sh/koordinator/pkg/koordlet/metricsadvisor/framework"
	"github.com/koordinator-sh/koordinator/pkg/koordlet/qosmanager/framework"
	qosmanagerUtil "github.com/koordinator-sh/koordinator/pkg/koordlet/qosmanager/plugins/util"
	mock_statesinformer "github.com/koordinator-sh/koordinator/pkg/koordlet/statesinformer/mockstatesinformer"
	"github.com/koordinator-sh/koordinator/pkg/koordlet/util/testutil"
	utilfeature "github.com/koordinator-sh/koordinator/pkg/util/feature"
)

// C11 harness `e2emem`: memoryEvict() END TO END through the package's gomock fixtures: feature gates +
// NodeSLO strategy (absent / disabled / thresholds nil, negative, inverted), node capacity and allocatable,
// node and pod usage metrics, generated pods (same shapes as `selmem`, eviction-policy annotations naming
// any of the three policies) and a scripted recording EvictionExecutor (already-evicted pods, failing
// calls).  Observed: what buildEvictTask returns per feature (target list + victim order) and the Evict
// calls of one memoryEvict() run.  The oracle checks eligibility per evicting feature, no double eviction,
// no eviction after the usage target is covered by the REAL usage of the victims, and that the run does not
// stop before the usage target is covered while an untried eligible victim with non-zero usage remains.

var c11eFeatures = []featuregate.Feature{features.BEMemoryEvict, features.MemoryAllocatableEvict, features.MemoryEvict}

const c11eCodeBase = 10 // policy-name codes of Model/C11Decode.policyElemsFor: 10 BEMemoryEvict, 11 MemoryAllocatableEvict, 12 MemoryEvict

type c11eCall struct {
	feat, pod int
	ok        bool
}

type c11eExec struct {
	isev   map[int]bool
	script []bool
	calls  []c11eCall
	byUID  map[string]*c11Pod
	bad    bool
}

func (x *c11eExec) Evict(pod *corev1.Pod, node *corev1.Node, releaseReason string, message string) bool {
	feat := -1
	for i, f := range c11eFeatures {
		if strings.HasPrefix(message, qosmanagerUtil.EvictReasonPrefix+string(f)+",") {
			feat = i
		}
	}
	p := x.byUID[string(pod.UID)]
	if feat < 0 || p == nil {
		x.bad = true
		return false
	}
	ok := true
	if len(x.calls) < len(x.script) {
		ok = x.script[len(x.calls)]
	}
	x.calls = append(x.calls, c11eCall{feat: feat, pod: p.id, ok: ok})
	return ok
}

func (x *c11eExec) IsPodEvicted(pod *corev1.Pod) bool {
	p := x.byUID[string(pod.UID)]
	return p != nil && x.isev[p.id]
}

// eviction-policy annotation naming the real policies
func c11ePolicy(r *vRand, p *c11Pod) {
	p.polTop, p.polElems, p.policyTxt = 0, nil, ""
	if r.Chance(3, 5) {
		return
	}
	if r.Chance(1, 5) {
		p.polTop = []int{1, 2, 4}[r.Intn(3)]
		p.policyTxt = []string{"", `notjson`, `null`, ``, `{"a":1}`}[p.polTop]
		return
	}
	p.polTop = 3
	n := r.Range(0, 3)
	var parts []string
	for i := 0; i < n; i++ {
		switch r.Intn(8) {
		case 0:
			p.polElems = append(p.polElems, 1)
			parts = append(parts, `"other"`)
		case 1:
			p.polElems = append(p.polElems, 2)
			parts = append(parts, `null`)
		case 2:
			p.polElems = append(p.polElems, 3)
			parts = append(parts, `7`)
		default:
			f := r.Intn(3)
			p.polElems = append(p.polElems, c11eCodeBase+f)
			parts = append(parts, `"`+string(c11eFeatures[f])+`"`)
		}
	}
	p.policyTxt = "[" + strings.Join(parts, ",") + "]"
}

func c11ePolicyOK(p *c11Pod, feat int) bool {
	switch p.polTop {
	case 0:
		return true
	case 3:
		has := false
		for _, e := range p.polElems {
			if e == 3 {
				return false
			}
			has = has || e == c11eCodeBase+feat
		}
		return has
	}
	return false
}

func c11eOpt(p *int64) string {
	if p == nil {
		return "0 0"
	}
	return fmt.Sprintf("1 %d", *p)
}

func TestVerifC11E2E(t *testing.T) {
	h := vOpen("C11")
	if h == nil {
		t.Skip("VERIF_OUT not set")
	}
	oldFactory := metriccache.DefaultAggregateResultFactory
	defer func() { metriccache.DefaultAggregateResultFactory = oldFactory }()
	resIdx := map[corev1.ResourceName]int{corev1.ResourceMemory: 1, apiext.BatchMemory: 3, apiext.MidMemory: 5}
	n := h.N(3000, 40000)
	for idx := 0; idx < n; idx++ {
		r := h.Begin(idx)
		if r == nil {
			continue
		}
		np := r.Range(1, 8)
		names := r.Perm(np)
		pods := make([]*c11Pod, np)
		allNil := r.Chance(1, 10)
		for i := range pods {
			p := c11GenPod(r, i, names[i])
			if r.Chance(2, 3) { // steer towards pods that can be victims
				p.evictLbl, p.hasMetric = 1, true
				if p.phase > 1 {
					p.phase = 1
				}
				if p.milli == 0 {
					p.milli = int64(r.Range(1, 12)) * 1000
				}
			}
			c11ePolicy(r, p)
			if allNil {
				p.hasSpec, p.spec = false, 0
			} else if !p.hasSpec {
				p.hasSpec, p.spec = true, 0
			}
			pods[i] = p
		}
		// ---- how the usage of each pod is (not) present in the metric cache (verif_c11_metric_test.go)
		collectInterval := maframework.NewDefaultConfig().CollectResUsedInterval
		window := int64(2 * collectInterval / time.Millisecond)
		realMC := r.Chance(1, 3)
		for _, p := range pods {
			if p.hasMetric && r.Chance(1, 4) {
				p.hasMetric = false // a pod the agent has no fresh usage sample of
			}
			c11GenSeries(r, p, realMC, window)
		}
		byUID := map[string]*c11Pod{}
		var real []*corev1.Pod
		for _, p := range pods {
			real = append(real, p.build())
			byUID[fmt.Sprintf("u%d", p.id)] = p
		}
		isev := map[int]bool{}
		var isevL []int64
		for _, p := range pods {
			if r.Chance(1, 8) {
				isev[p.id] = true
				isevL = append(isevL, int64(p.id))
			}
		}
		script := make([]bool, 3*np)
		allOK := r.Chance(1, 2)
		for i := range script {
			script[i] = allOK || r.Chance(3, 4)
		}

		// ---- node, strategy, gates
		capacity := int64(r.Range(5, 40)) * 10
		if r.Chance(1, 30) {
			capacity = 0
		}
		var used *int64
		if !r.Chance(1, 15) {
			used = ptr.To(int64(r.Range(0, int(capacity)+10)))
			if r.Chance(3, 4) && capacity > 0 {
				used = ptr.To(capacity * int64(r.Range(60, 100)) / 100)
			}
		}
		optI64 := func(lo, hi int, nilOneIn int) *int64 {
			if r.Chance(1, nilOneIn) {
				return nil
			}
			return ptr.To(int64(r.Range(lo, hi)))
		}
		thr := optI64(40, 80, 20)
		if thr != nil && r.Chance(1, 20) {
			*thr = -1
		}
		var lower *int64
		if thr != nil && r.Chance(1, 2) {
			lower = ptr.To(*thr - int64(r.Range(1, 12)))
			if r.Chance(1, 10) {
				lower = ptr.To(*thr + int64(r.Intn(2))) // inverted / equal: invalid
			}
		}
		prioPool := []int32{100, 3000, 5500, 5999, 7999, 9999}
		var prioThr, aPrioThr *int32
		if !r.Chance(1, 12) {
			prioThr = ptr.To(prioPool[r.Intn(len(prioPool))])
		}
		if !r.Chance(1, 12) {
			aPrioThr = ptr.To(prioPool[r.Intn(len(prioPool))]) // 9999 > PriorityMidValueMax: invalid
		}
		aThr := optI64(0, 100, 12)
		var aLower *int64
		if aThr != nil && !r.Chance(1, 12) {
			aLower = ptr.To(*aThr - int64(r.Range(1, 40)))
			if r.Chance(1, 12) {
				aLower = ptr.To(*aThr)
			}
		}
		optAlloc := func() *int64 {
			switch r.Intn(5) {
			case 0:
				return nil
			case 1:
				return ptr.To(int64(0))
			}
			return ptr.To(int64(r.Range(1, 30)) * 100)
		}
		allocMem, allocBatch, allocMid := optAlloc(), optAlloc(), optAlloc()
		gate := [3]bool{r.Chance(4, 5), r.Chance(2, 3), r.Chance(4, 5)}
		strategyNil := r.Chance(1, 25)
		var enable *bool
		if !r.Chance(1, 25) {
			enable = ptr.To(!r.Chance(1, 12))
		}
		strategy := &slov1alpha1.ResourceThresholdStrategy{Enable: enable, MemoryEvictThresholdPercent: thr, MemoryEvictLowerPercent: lower,
			EvictEnabledPriorityThreshold: prioThr, MemoryAllocatableEvictThresholdPercent: aThr,
			MemoryAllocatableEvictLowerPercent: aLower, AllocatableEvictPriorityThreshold: aPrioThr}
		nodeSLO := &slov1alpha1.NodeSLO{}
		if !strategyNil {
			nodeSLO.Spec.ResourceUsedThresholdWithBE = strategy
		} else {
			thr, lower, prioThr, aPrioThr, aThr, aLower = nil, nil, nil, nil, nil, nil
		}
		on := [3]bool{}
		for f := range on {
			on[f] = gate[f] && !strategyNil && enable != nil && *enable
		}
		node := testutil.MockTestNode("80", "1")
		node.Status.Capacity[corev1.ResourceMemory] = *resource.NewQuantity(capacity, resource.BinarySI)
		node.Status.Allocatable = corev1.ResourceList{}
		for _, x := range []struct {
			n corev1.ResourceName
			v *int64
		}{{corev1.ResourceMemory, allocMem}, {apiext.BatchMemory, allocBatch}, {apiext.MidMemory, allocMid}} {
			if x.v != nil {
				node.Status.Allocatable[x.n] = *resource.NewQuantity(*x.v, resource.BinarySI)
			}
		}

		// ---- fixtures
		ctl := gomock.NewController(t)
		si := mock_statesinformer.NewMockStatesInformer(ctl)
		si.EXPECT().GetAllPods().Return(testutil.GetPodMetas(real)).AnyTimes()
		si.EXPECT().GetNode().Return(node).AnyTimes()
		si.EXPECT().GetNodeSLO().Return(nodeSLO).AnyTimes()
		var theCache metriccache.MetricCache
		var pin *c11PinCache
		if realMC {
			// the REAL metric cache (TSDB) and the real AggregateResult behind a pinned clock
			metriccache.DefaultAggregateResultFactory = c11RealResultFactory
			var extra []c11ExtraSeries
			if used != nil {
				x := c11ExtraSeries{res: c11NodeMetric, ages: []int64{int64(r.Intn(int(window) + 1))}, vals: []float64{float64(*used)}}
				if r.Chance(1, 3) { // an older node sample with another value: the latest one counts
					x.ages = append(x.ages, x.ages[0]+int64(r.Range(1, 5000)))
					x.vals = append(x.vals, float64(*used+int64(r.Range(1, 50))))
				}
				extra = append(extra, x)
			} else if r.Chance(1, 2) {
				extra = append(extra, c11ExtraSeries{res: c11NodeMetric, ages: []int64{window + int64(r.Range(1, 100000))}, vals: []float64{float64(capacity)}}) // stale only
			}
			pin = c11RealCache(t, pods, extra)
			theCache = pin
		}
		mc := mock_metriccache.NewMockMetricCache(ctl)
		if !realMC {
			theCache = mc
		}
		rf := mock_metriccache.NewMockAggregateResultFactory(ctl)
		if !realMC {
			metriccache.DefaultAggregateResultFactory = rf
		}
		q := mock_metriccache.NewMockQuerier(ctl)
		mc.EXPECT().Querier(gomock.Any(), gomock.Any()).Return(q, nil).AnyTimes()
		q.EXPECT().Close().AnyTimes()
		for _, p := range pods {
			res := mock_metriccache.NewMockAggregateResult(ctl)
			if !p.qerr && len(p.series) == 0 {
				// EMPTY result: the query succeeds and holds no point (what the real AggregateResult then says)
				res.EXPECT().Value(gomock.Any()).Return(float64(0), fmt.Errorf("metric input is empty")).AnyTimes()
				res.EXPECT().Count().Return(0).AnyTimes()
			} else {
				res.EXPECT().Value(gomock.Any()).Return(c11MetricValue(p.milli), nil).AnyTimes()
				res.EXPECT().Count().Return(1).AnyTimes()
			}
			meta, err := c11PodMetric.BuildQueryMeta(metriccache.MetricPropertiesFunc.Pod(fmt.Sprintf("u%d", p.id)))
			if err != nil {
				t.Fatal(err)
			}
			rf.EXPECT().New(meta).Return(res).AnyTimes()
			if !p.qerr {
				q.EXPECT().QueryAndClose(meta, gomock.Any(), gomock.Any()).SetArg(2, *res).Return(nil).AnyTimes()
			} else {
				q.EXPECT().QueryAndClose(meta, gomock.Any(), gomock.Any()).Return(fmt.Errorf("no metric")).AnyTimes()
			}
		}
		nres := mock_metriccache.NewMockAggregateResult(ctl)
		nmeta, _ := c11NodeMetric.BuildQueryMeta(nil)
		rf.EXPECT().New(nmeta).Return(nres).AnyTimes()
		nres.EXPECT().Count().Return(1).AnyTimes()
		if used != nil {
			nres.EXPECT().Value(gomock.Any()).Return(float64(*used), nil).AnyTimes()
			q.EXPECT().QueryAndClose(nmeta, gomock.Any(), gomock.Any()).SetArg(2, *nres).Return(nil).AnyTimes()
		} else {
			q.EXPECT().QueryAndClose(nmeta, gomock.Any(), gomock.Any()).Return(fmt.Errorf("no node metric")).AnyTimes()
		}
		var restore []func()
		for f, ft := range c11eFeatures {
			restore = append(restore, utilfeature.SetFeatureGateDuringTest(t, features.DefaultMutableKoordletFeatureGate, ft, gate[f]))
		}
		opt := &framework.Options{StatesInformer: si, MetricCache: theCache, Config: framework.NewDefaultConfig(), MetricAdvisorConfig: maframework.NewDefaultConfig()}
		ev := New(opt).(*memoryEvictor)
		ex := &c11eExec{isev: isev, script: script, byUID: byUID}
		ev.evictExecutor = ex
		ev.lastEvictTime = time.Now().Add(-time.Hour) // past the cooling interval

		// ---- ops
		for _, p := range pods {
			numTok := func(kind int, n *big.Int) string {
				if kind == 1 {
					return "1 " + n.String()
				}
				return fmt.Sprintf("%d 0", kind)
			}
			kube := p.kube
			if kube < 0 {
				kube = 1
			}
			el := p.evictLbl
			if el > 1 {
				el = 2
			}
			h.Op("rawpod %d %d %d %d %d %d %d %d %d %s %s %d %d %d %d %d %d %d %d %s", p.id, p.name, p.qos, kube, p.phase,
				vB(p.hasSpec), p.spec, p.clsLabel, el, numTok(p.epKind, p.epNum), numTok(p.lpKind, p.lpNum), p.polTop,
				0, 0 /* hasMetric / used: defined by the pod's `metric` line below */, p.reqNative, p.reqMid, p.reqBatch, p.batchCPU, len(p.polElems), vIntsI(p.polElems))
			h.Op("%s", c11CtrsOp(p))
			h.Tag(fmt.Sprintf("containers:%d", len(p.ctrs)))
		}
		for _, p := range pods {
			h.Op("%s", c11SeriesOp(p, window))
		}
		c11ObserveLast(h, theCache, collectInterval, pods)
		h.Op("isev %d %s", len(isevL), vInts(isevL))
		sc := make([]int64, len(script))
		for i, b := range script {
			sc[i] = int64(vB(b))
		}
		h.Op("script %d %s", len(sc), vInts(sc))
		p32 := func(p *int32) *int64 {
			if p == nil {
				return nil
			}
			return ptr.To(int64(*p))
		}
		h.Op("e2emem %d %d %d %s %s %s %s %s %s %d %s %s %s %s", vB(on[0]), vB(on[1]), vB(on[2]), c11eOpt(thr), c11eOpt(lower),
			c11eOpt(p32(prioThr)), c11eOpt(aThr), c11eOpt(aLower), c11eOpt(p32(aPrioThr)), capacity, c11eOpt(used),
			c11eOpt(allocMem), c11eOpt(allocBatch), c11eOpt(allocMid))

		// ---- what buildEvictTask returns per feature
		panicked := false
		taskPods := [3][]*c11Pod{}
		taskBuilt := [3]bool{}
		allocKeys := map[int]bool{} // resources the allocatable task wants released
		for f, ft := range c11eFeatures {
			if capacity <= 0 {
				break // buildEvictTask divides by the capacity; memoryEvict() returns before calling it
			}
			var task *qosmanagerUtil.EvictTaskInfo
			if h.Guard(func() { task, _ = ev.buildEvictTask(ft, nodeSLO, node) }) {
				h.Obs("task %d panic", f)
				h.Fail("C11:panic", "buildEvictTask(%s) panicked", ft)
				panicked = true
				continue
			}
			if task == nil {
				h.Obs("task %d none", f)
				continue
			}
			taskBuilt[f] = true
			type kv struct {
				r int
				v int64
			}
			var to []kv
			for rn, qv := range task.ToReleaseResource {
				to = append(to, kv{resIdx[rn], qv.Value()})
			}
			sort.Slice(to, func(i, j int) bool { return to[i].r < to[j].r })
			if f == 1 {
				for _, x := range to {
					allocKeys[x.r] = true
				}
			}
			var sb strings.Builder
			fmt.Fprintf(&sb, "task %d %d", f, len(to))
			for _, x := range to {
				fmt.Fprintf(&sb, " %d %d", x.r, x.v)
			}
			fmt.Fprintf(&sb, " %d", len(task.SortedEvictPods))
			for _, info := range task.SortedEvictPods {
				p := byUID[string(info.Pod.UID)]
				fmt.Fprintf(&sb, " %d", p.id)
				taskPods[f] = append(taskPods[f], p)
			}
			h.Obs("%s", sb.String())
		}
		// ---- one memoryEvict() run
		before := ev.lastEvictTime
		ex.calls = nil
		if h.Guard(func() { ev.memoryEvict() }) {
			h.Obs("panic")
			h.Fail("C11:panic", "memoryEvict panicked")
			panicked = true
		}
		ranTasks := capacity > 0 && ((on[0] && taskBuilt[0]) || (on[1] && taskBuilt[1]) || (on[2] && taskBuilt[2]))
		if !panicked {
			if !ranTasks && len(ex.calls) == 0 {
				h.Obs("skip")
			} else {
				for _, c := range ex.calls {
					h.Obs("evict %d %d %d", c.feat, c.pod, vB(c.ok))
				}
				h.Obs("newly %d", vB(ev.lastEvictTime != before))
			}
		}
		if ex.bad {
			h.Fail("C11:harness-reason", "could not attribute an Evict call to a feature / pod")
		}
		for _, rfn := range restore {
			rfn()
		}
		ctl.Finish()
		if pin != nil {
			for w := range pin.widths {
				h.Tag(fmt.Sprintf("query-window-ms:%d", w))
			}
			pin.MetricCache.Close()
		}

		// ================= property oracle (from the generated attributes only) =================
		realUse := func(p *c11Pod) int64 { // bytes the pod really uses, as far as a metric says
			if !p.hasMetric {
				return 0
			}
			return p.milli / 1000
		}
		eligible := func(p *c11Pod, f int) bool {
			if !c11ePolicyOK(p, f) {
				return false
			}
			switch f {
			case 0:
				return p.qos == 1
			case 1:
				return p.evictLbl == 1 && aPrioThr != nil && (p.prioAmbiguous() || (p.effPrio() <= *aPrioThr && p.effPrio() <= apiext.PriorityMidValueMax))
			default:
				return p.evictLbl == 1 && prioThr != nil && (p.prioAmbiguous() || p.effPrio() <= *prioThr)
			}
		}
		okPods := map[int]bool{}
		failedPods := map[int]bool{}
		// integer usage target as the property states it
		usageTarget := int64(-1)
		if capacity > 0 && used != nil && thr != nil && *thr >= 0 {
			lo := *thr - c11Buffer
			if lower != nil {
				lo = *lower
			}
			if pct := *used * 100 / capacity; lo < *thr && pct >= *thr {
				usageTarget = capacity * (pct - lo) / 100
			}
		}
		var okReal int64
		lastFeat := 0
		for _, c := range ex.calls {
			p := pods[c.pod]
			if !on[c.feat] {
				h.Fail("C11:feature-off", "pod %d evicted by feature %s which is off", p.id, c11eFeatures[c.feat])
			}
			if c.feat < lastFeat {
				h.Fail("C11:out-of-order", "feature %d evicts after feature %d", c.feat, lastFeat)
			}
			lastFeat = c.feat
			if !eligible(p, c.feat) {
				h.Fail("C11:ineligible-victim", "e2e: pod %d (qos %d prio %d evictLbl %d policy %d/%v) evicted by %s", p.id, p.qos, p.effPrio(), p.evictLbl, p.polTop, p.polElems, c11eFeatures[c.feat])
			}
			if c.feat != 0 && !p.hasMetric {
				// priority paths ("4. filter no metrics"): a pod the agent has no usage sample of inside the query
				// window is no victim.  (The BE path keeps such a pod as a candidate with usage 0: unchanged tree.)
				h.Fail("C11:victim-without-metric", "e2e: pod %d evicted by %s although the metric cache holds no usage sample of it in the last %d ms (%s)", p.id, c11eFeatures[c.feat], window, p.mstate)
			}
			if c.feat == 0 && !p.hasMetric {
				h.Tag("be-victim-without-sample") // allowed: the BE lists keep an unmeasured pod with usage 0
			}
			if okPods[p.id] {
				h.Fail("C11:double-evict", "e2e: pod %d evicted again", p.id)
			}
			if isev[p.id] {
				h.Fail("C11:evict-already-evicted", "e2e: pod %d is already evicted (terminating) but evicted again", p.id)
			}
			if c.feat != 1 && usageTarget >= 0 && okReal >= usageTarget {
				h.Fail("C11:evict-after-met", "e2e: pod %d evicted by %s although the victims so far really use %d >= target %d", p.id, c11eFeatures[c.feat], okReal, usageTarget)
			}
			if c.feat == 1 && !p.clsAmbiguous() {
				// the allocatable task credits a victim under the resource of its priority class only
				res, isExt := (map[int]int{2: 5, 3: 3})[p.cls()]
				if !isExt {
					res = 1 // native
				}
				if !allocKeys[res] || !isExt || p.request() == 0 {
					h.Fail("C11:victim-frees-nothing-short", "e2e %s: pod %d (class %d, request %d under resource %d) releases nothing of the target's resources %v", c11eFeatures[1], p.id, p.cls(), p.request(), res, allocKeys)
				}
			}
			if c.ok {
				okPods[p.id] = true
				okReal += realUse(p)
			} else {
				failedPods[p.id] = true
			}
		}
		// published order inside the priority-based features
		for f := 1; f <= 2; f++ {
			var prev *c11Pod
			for _, c := range ex.calls {
				if c.feat != f {
					continue
				}
				p := pods[c.pod]
				if prev != nil && !p.prioAmbiguous() && !prev.prioAmbiguous() && !(f == 1 && (p.clsAmbiguous() || prev.clsAmbiguous())) {
					key := func(x *c11Pod) []int64 {
						s := x.milli
						if f == 1 {
							s = x.request()
						}
						return []int64{int64(x.evictPrio()), int64(x.effPrio()), x.labelPrio(), -s}
					}
					if c11LexLess(key(prev), key(p)) > 0 {
						h.Fail("C11:list-out-of-order", "e2e %s: pod %d evicted before pod %d", c11eFeatures[f], prev.id, p.id)
					}
				}
				prev = p
			}
		}
		// stops-before-target-covered: the usage-based features (BE, MemoryEvict) are on with a plainly valid
		// config, the REAL usage of everything evicted or still terminating does not cover the target, and an
		// eligible, measured, active victim with non-zero usage was never tried
		if !panicked && usageTarget > 0 {
			generous := okReal
			for _, p := range pods {
				if isev[p.id] && !okPods[p.id] {
					generous += realUse(p)
				}
			}
			if generous < usageTarget {
				for _, p := range pods {
					if okPods[p.id] || failedPods[p.id] || isev[p.id] || realUse(p) == 0 {
						continue
					}
					cand := on[0] && eligible(p, 0)
					if on[2] && prioThr != nil && !p.prioAmbiguous() && eligible(p, 2) && p.phase <= 1 && p.hasMetric {
						cand = true
					}
					if cand {
						h.Fail("C11:stops-before-target-covered", "e2e: target %d bytes, victims and terminating pods really use %d, yet eligible pod %d (uses %d) was never tried", usageTarget, generous, p.id, realUse(p))
						break
					}
				}
			}
		}
		nOn := 0
		for f := range on {
			if on[f] && taskBuilt[f] {
				nOn++
			}
		}
		h.Tag(fmt.Sprintf("metric-fixture:real=%v", realMC))
		for _, p := range pods {
			h.Tag(fmt.Sprintf("metric-state:real=%v,%s", realMC, p.mstate))
			if !p.hasMetric && p.phase <= 1 && !isev[p.id] && !p.prioAmbiguous() && ((on[2] && taskBuilt[2] && eligible(p, 2)) || (on[1] && taskBuilt[1] && eligible(p, 1))) {
				h.Tag("eligible-prio-pod-without-sample-under-pressure") // what C11:victim-without-metric is about
			}
		}
		h.Tag(fmt.Sprintf("tasks-run:%d", nOn))
		h.Tag(fmt.Sprintf("calls:%d", len(ex.calls)))
		h.Tag(fmt.Sprintf("usage-target:%v", usageTarget > 0))
		for f := range on {
			h.Tag(fmt.Sprintf("feature%d:on=%v,built=%v", f, on[f], taskBuilt[f]))
		}
		if len(ex.calls) >= 2 {
			h.Nontrivial()
		}
		h.End()
	}
	h.Close("every pod's usage is given as its SERIES in the metric cache (gomock fixture: query error / empty result / one point; 1 case in 3 on the REAL " +
		"metric cache (TSDB) behind a pinned clock: no point / stale points only / a point after the query end / one / several / stale+fresh points, ages on both " +
		"window boundaries); " +
		"memoryEvict() end to end: 1-8 generated pods (shapes of selmem, policy annotations naming the three real policies), three feature " +
		"gates, NodeSLO strategy absent/disabled/with nil, negative, inverted thresholds, node capacity (rarely 0), node metric present/absent, " +
		"allocatable absent/zero/positive per class, already-evicted set, scripted Evict failures; non-trivial = at least 2 Evict calls; distinct by op lines")
}
