//go:build verif

package memoryevict

import (
	"fmt"
	"testing"
	"time"

	"go.uber.org/mock/gomock"
	corev1 "k8s.io/api/core/v1"
	metav1 "k8s.io/apimachinery/pkg/apis/meta/v1"
	"k8s.io/apimachinery/pkg/types"

	"github.com/koordinator-sh/koordinator/pkg/koordlet/metriccache"
	maframework "github.com/koordinator-sh/koordinator/pkg/koordlet/metricsadvisor/framework"
	"github.com/koordinator-sh/koordinator/pkg/koordlet/qosmanager/helpers"
	mock_statesinformer "github.com/koordinator-sh/koordinator/pkg/koordlet/statesinformer/mockstatesinformer"
	"github.com/koordinator-sh/koordinator/pkg/koordlet/util/testutil"
)

// C11 harness `metricx`: EXHAUSTIVE small scope of the metric glue on the REAL metric cache (one TSDB, pinned clock):
// every series of at most 3 points with ages (ms before the query end) drawn from {-1, 0, 1000, 2000, 2001, 5000}
// (after the end, both window boundaries, inside, just outside, stale) and values from {0, 1000, 2000} bytes —
// 694 series.  Observed per series: helpers.CollectPodMetricLast (what the priority list builders call) and
// whether helpers.CollectAllPodMetricsLast (what the BE memory list builder calls) has an entry for the pod.
func TestVerifC11MetricExhaustive(t *testing.T) {
	h := vOpen("C11")
	if h == nil {
		t.Skip("VERIF_OUT not set")
	}
	oldFactory := metriccache.DefaultAggregateResultFactory
	metriccache.DefaultAggregateResultFactory = c11RealResultFactory
	defer func() { metriccache.DefaultAggregateResultFactory = oldFactory }()
	interval := maframework.NewDefaultConfig().CollectResUsedInterval
	window := int64(2 * interval / time.Millisecond)
	ages := []int64{5000, 2001, 2000, 1000, 0, -1} // storage (time) order
	vals := []int64{0, 1000000, 2000000}           // milli
	var cases [][]c11Sample
	var rec func(from int, cur []c11Sample)
	rec = func(from int, cur []c11Sample) {
		cases = append(cases, append([]c11Sample(nil), cur...))
		if len(cur) == 3 {
			return
		}
		for i := from; i < len(ages); i++ {
			for _, v := range vals {
				rec(i+1, append(cur, c11Sample{ages[i], v}))
			}
		}
	}
	rec(0, nil)
	pods := make([]*c11Pod, len(cases))
	for i, s := range cases {
		pods[i] = &c11Pod{id: i, series: s}
	}
	pin := c11RealCache(t, pods, nil)
	defer pin.MetricCache.Close()
	n := h.N(len(cases), len(cases))
	for idx := 0; idx < n && idx < len(cases); idx++ {
		r := h.Begin(idx)
		if r == nil {
			continue
		}
		p := &c11Pod{id: 0, series: cases[idx]}
		h.Op("%s", c11SeriesOp(p, window))
		// the property's own reading of the series
		has, want, best := false, int64(0), int64(-1)
		for _, s := range p.series {
			if s.age >= 0 && s.age <= window && (best < 0 || s.age < best) {
				best, has, want = s.age, true, s.milli
			}
		}
		uid := fmt.Sprintf("u%d", idx)
		meta, err := c11PodMetric.BuildQueryMeta(metriccache.MetricPropertiesFunc.Pod(uid))
		if err != nil {
			t.Fatal(err)
		}
		var v float64
		var cerr error
		if h.Guard(func() { v, cerr = helpers.CollectPodMetricLast(pin, meta, interval) }) {
			h.Obs("last 0 panic")
			h.Fail("C11:panic", "CollectPodMetricLast panicked")
			h.End()
			continue
		}
		if cerr != nil {
			h.Obs("last 0 none")
		} else {
			h.Obs("last 0 %d", int64(v*1000))
		}
		if !has && cerr == nil {
			h.Fail("C11:no-sample-not-an-error", "CollectPodMetricLast reports usage %v (no error) for a pod with no usage sample in the query window; series (age ms, milli) %v", v, p.series)
		}
		if has && (cerr != nil || int64(v*1000) != want) {
			h.Fail("C11:metric-last-wrong", "CollectPodMetricLast reports (%v, %v); the latest sample in the window is %d/1000; series %v", v, cerr, want, p.series)
		}
		// the BE memory path's source: an entry exactly for a measured pod, holding the same value
		ctl := gomock.NewController(t)
		si := mock_statesinformer.NewMockStatesInformer(ctl)
		pod := &corev1.Pod{ObjectMeta: metav1.ObjectMeta{Name: "p", Namespace: "ns", UID: types.UID(uid)}}
		si.EXPECT().GetAllPods().Return(testutil.GetPodMetas([]*corev1.Pod{pod})).AnyTimes()
		var all map[string]float64
		if h.Guard(func() { all = helpers.CollectAllPodMetricsLast(si, pin, c11PodMetric, interval) }) {
			h.Fail("C11:panic", "CollectAllPodMetricsLast panicked")
		} else {
			av, ok := all[uid]
			if ok != has || (ok && int64(av*1000) != want) {
				h.Fail("C11:metric-last-wrong", "CollectAllPodMetricsLast entry (%v, %v); expected present=%v value %d/1000; series %v", av, ok, has, want, p.series)
			}
		}
		ctl.Finish()
		h.Tag(fmt.Sprintf("points:%d,measured=%v", len(p.series), has))
		if len(p.series) >= 2 {
			h.Nontrivial()
		}
		h.End()
	}
	h.Close("exhaustive: every usage series of <= 3 points over ages {5000, 2001, 2000, 1000, 0, -1} ms and values {0, 1000, 2000} on the real metric " +
		"cache behind a pinned clock; non-trivial = at least 2 points; distinct by op lines")
}
