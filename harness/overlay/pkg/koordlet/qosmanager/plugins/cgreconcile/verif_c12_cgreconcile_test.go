//go:build verif

package cgreconcile

import (
	"encoding/json"
	"fmt"
	"os"
	"path/filepath"
	"strconv"
	"strings"
	"testing"
	"time"

	"go.uber.org/mock/gomock"
	corev1 "k8s.io/api/core/v1"
	"k8s.io/apimachinery/pkg/api/resource"
	metav1 "k8s.io/apimachinery/pkg/apis/meta/v1"
	"k8s.io/apimachinery/pkg/types"
	"k8s.io/utils/ptr"

	apiext "github.com/koordinator-sh/koordinator/apis/extension"
	slov1alpha1 "github.com/koordinator-sh/koordinator/apis/slo/v1alpha1"
	"github.com/koordinator-sh/koordinator/pkg/koordlet/resourceexecutor"
	"github.com/koordinator-sh/koordinator/pkg/koordlet/statesinformer"
	mockstatesinformer "github.com/koordinator-sh/koordinator/pkg/koordlet/statesinformer/mockstatesinformer"
	koordletutil "github.com/koordinator-sh/koordinator/pkg/koordlet/util"
	sysutil "github.com/koordinator-sh/koordinator/pkg/koordlet/util/system"
	"github.com/koordinator-sh/koordinator/pkg/util/cache"
	"github.com/koordinator-sh/koordinator/pkg/util/sloconfig"
)

// C12 harness `cgreconcile`: the REAL caller of LeveledUpdateBatch for memory.min / memory.low.
// One case = a kubepods tree (kubepods, burstable, besteffort; Guaranteed / Burstable / BestEffort pods with 1-2
// containers and memory requests) in a temp cgroup root (cgroup v1 or v2, systemd or cgroupfs names) and a history
// of NodeSLOs (min / low percent nil / 0 / 50 / 100 per class, memory QoS switched off = the None template, pod
// annotations overriding the percent or the policy, pods shown / hidden / terminated), each handed to the real
// calculateAndUpdateResources on the real executor with a fresh ResourceCache.  Snapshot technique as in
// runtimehooks/hooks/batchresource/verif_c12_rulecb_test.go (wrapped updaters, all memory.min and memory.low files
// inspected whenever the sweeps call an exported updater method; mtime sentinel).
// Op lines: for ONE of the two resources (chosen per case) the batch calculateResources HAS TO build according to the
// harness' own reading ([qos, pods, containers], request * percent / 100, qos = sums, every updater mergeable);
// observations: the writes of that resource in order and its final contents.
// Oracle (both resources): after every write each child's protection <= its parent's.  The two edges
// kubepods -> burstable / besteffort (kubepods sits FIRST in the level of its children) have their own fingerprint
// C12:cgreconcile-invalid-intermediate:kubepods-before-qos-child (fixed by 4d8d1bf: the bottom-up sweep walks a level
// backwards).

var c12cgSentinel = time.Unix(1000000, 0)

type c12cgTree struct {
	h      *vHarness
	obsRes int // 0 memory.min, 1 memory.low: the resource whose writes are observations
	nn     int
	parent []int
	paths  [2][]string
	vals   [2][]int64
	writes [2][][2]int64
	bad    [2]bool // a checked edge was violated after some write
	badQos [2]bool // kubepods below burstable / besteffort after some write
	badAt  [2][]int64
	garble bool
	multi  bool
	nonMerg int
}

func c12cgParse(content string) (int64, bool) {
	f := strings.Fields(strings.Trim(content, "\n"))
	if len(f) != 1 {
		return 0, false
	}
	if f[0] == "max" {
		return -1, true
	}
	v, err := strconv.ParseInt(f[0], 10, 64)
	if err != nil || v < 0 {
		return 0, false
	}
	return v, true
}

func c12cgLe(a, b int64) bool {
	if b == -1 {
		return true
	}
	return a != -1 && a <= b
}

// edges below the qos level (and kubepods -> guaranteed pods); qosEdges: burstable / besteffort under kubepods
func (t *c12cgTree) valid(v []int64, qosEdges bool) bool {
	for c, p := range t.parent {
		if p < 0 {
			continue
		}
		isQos := p == 0 && (c == 1 || c == 2)
		if isQos == qosEdges && !c12cgLe(v[c], v[p]) {
			return false
		}
	}
	return true
}

func (t *c12cgTree) arm(k, i int) { _ = os.Chtimes(t.paths[k][i], c12cgSentinel, c12cgSentinel) }

func (t *c12cgTree) inspect() {
	n := 0
	for k := 0; k < 2; k++ {
		for i, p := range t.paths[k] {
			st, err := os.Stat(p)
			if err != nil {
				t.garble = true
				continue
			}
			if st.ModTime().Equal(c12cgSentinel) {
				continue
			}
			n++
			b, _ := os.ReadFile(p)
			v, ok := c12cgParse(string(b))
			if !ok {
				v = -3
				t.garble = true
			}
			if k == t.obsRes {
				t.h.Obs("w %d %d", i, v)
			}
			t.writes[k] = append(t.writes[k], [2]int64{int64(i), v})
			t.vals[k][i] = v
			t.arm(k, i)
			if !t.garble {
				if !t.valid(t.vals[k], false) && !t.bad[k] {
					t.bad[k] = true
					t.badAt[k] = append([]int64(nil), t.vals[k]...)
				}
				if !t.valid(t.vals[k], true) && !t.badQos[k] {
					t.badQos[k] = true
				}
			}
		}
	}
	if n > 1 {
		t.multi = true
	}
}

type c12cgUpd struct {
	resourceexecutor.ResourceUpdater
	t *c12cgTree
}

func (w *c12cgUpd) Key() string { w.t.inspect(); return w.ResourceUpdater.Key() }
func (w *c12cgUpd) MergeUpdate() (resourceexecutor.ResourceUpdater, error) {
	w.t.inspect()
	m, err := w.ResourceUpdater.MergeUpdate()
	w.t.inspect()
	if m == nil && err == nil {
		w.t.nonMerg++
	}
	return m, err
}
func (w *c12cgUpd) UpdateLastUpdateTimestamp(ts time.Time) {
	w.t.inspect()
	w.ResourceUpdater.UpdateLastUpdateTimestamp(ts)
}

type c12cgExec struct {
	inner *resourceexecutor.ResourceUpdateExecutorImpl
	t     *c12cgTree
	calls int
}

func (e *c12cgExec) wrap(u resourceexecutor.ResourceUpdater) resourceexecutor.ResourceUpdater {
	return &c12cgUpd{ResourceUpdater: u, t: e.t}
}
func (e *c12cgExec) Update(cacheable bool, u resourceexecutor.ResourceUpdater) (bool, error) {
	ok, err := e.inner.Update(cacheable, e.wrap(u))
	e.t.inspect()
	return ok, err
}
func (e *c12cgExec) UpdateBatch(cacheable bool, us ...resourceexecutor.ResourceUpdater) {
	ws := make([]resourceexecutor.ResourceUpdater, len(us))
	for i, u := range us {
		ws[i] = e.wrap(u)
	}
	e.inner.UpdateBatch(cacheable, ws...)
	e.t.inspect()
}
func (e *c12cgExec) LeveledUpdateBatch(us [][]resourceexecutor.ResourceUpdater) {
	e.calls++
	ws := make([][]resourceexecutor.ResourceUpdater, len(us))
	for i, l := range us {
		for _, u := range l {
			ws[i] = append(ws[i], e.wrap(u))
		}
	}
	e.inner.LeveledUpdateBatch(ws)
	e.t.inspect()
}
func (e *c12cgExec) Run(stopCh <-chan struct{}) { e.inner.Run(stopCh) }


// ---- the harness' own reading of calculateResources ----

type c12cgCtr struct {
	node int
	req  int64 // memory request in bytes, -1 = none
}

type c12cgPod struct {
	meta    *statesinformer.PodMeta
	kube    int // 0 Guaranteed 1 Burstable 2 BestEffort
	class   int // 0 LSR 1 LS 2 BE: which class config applies
	node    int
	ctrs    []c12cgCtr
	active  bool
	polNone bool      // annotation policy "none"
	ovr     [2]*int64 // annotation override of min / low percent
}

func (p *c12cgPod) memReq() int64 {
	var s int64
	for _, c := range p.ctrs {
		if c.req > 0 {
			s += c.req
		}
	}
	return s
}

// per-class percents of one NodeSLO: [class][min|low], nil = not configured
type c12cgCfg [3][2]*int64

func (p *c12cgPod) pct(cfg *c12cgCfg, k int) *int64 {
	if p.polNone {
		return ptr.To[int64](0)
	}
	if p.ovr[k] != nil {
		return p.ovr[k]
	}
	return cfg[p.class][k]
}

// values asked of [min|low][dir]; nil = no updater for that dir
func c12cgWant(cfg *c12cgCfg, pods []*c12cgPod, nn int) [2][]*int64 {
	var w [2][]*int64
	for k := 0; k < 2; k++ {
		w[k] = make([]*int64, nn)
	}
	var sum [2][3]*int64
	for _, p := range pods {
		if !p.active {
			continue
		}
		var pv [2]*int64
		for k := 0; k < 2; k++ {
			if pc := p.pct(cfg, k); pc != nil {
				v := p.memReq() * *pc / 100
				pv[k] = &v
				if sum[k][p.kube] == nil {
					sum[k][p.kube] = ptr.To[int64](0)
				}
				*sum[k][p.kube] += v
			}
		}
		if pv[0] != nil && pv[1] != nil && *pv[1] > 0 && *pv[1] < *pv[0] {
			*pv[1] = *pv[0]
		}
		w[0][p.node], w[1][p.node] = pv[0], pv[1]
		for _, c := range p.ctrs {
			var cv [2]*int64
			rq := c.req
			if rq < 0 {
				rq = 0
			}
			for k := 0; k < 2; k++ {
				if pc := p.pct(cfg, k); pc != nil {
					v := rq * *pc / 100
					cv[k] = &v
				}
			}
			if cv[0] != nil && cv[1] != nil && *cv[1] > 0 && *cv[1] < *cv[0] {
				*cv[1] = *cv[0]
			}
			w[0][c.node], w[1][c.node] = cv[0], cv[1]
		}
	}
	for k := 0; k < 2; k++ {
		var tot *int64
		for q := 0; q < 3; q++ {
			if sum[k][q] != nil {
				if tot == nil {
					tot = ptr.To[int64](0)
				}
				*tot += *sum[k][q]
			}
		}
		w[k][0] = tot // kubepods = the three sums
		w[k][1] = sum[k][1]
		w[k][2] = sum[k][2]
	}
	return w
}

var c12cgPcts = []*int64{nil, ptr.To[int64](0), ptr.To[int64](50), ptr.To[int64](100), ptr.To[int64](100), ptr.To[int64](30)}
var c12cgReqs = []int64{256 << 20, 512 << 20, 1 << 30, 2 << 30, 100 << 20, -1}

func TestVerifC12CgReconcile(t *testing.T) {
	h := vOpen("C12")
	if h == nil {
		t.Skip("VERIF_OUT not set")
	}
	oldRoot, oldV2 := sysutil.Conf.CgroupRootDir, sysutil.UseCgroupsV2.Load()
	defer func() {
		sysutil.Conf.CgroupRootDir = oldRoot
		sysutil.UseCgroupsV2.Store(oldV2)
		sysutil.SetupCgroupPathFormatter(sysutil.Systemd)
	}()
	for _, res := range []sysutil.Resource{sysutil.MemoryMin, sysutil.MemoryLow, sysutil.MemoryHigh} {
		res.WithSupported(true, "verif")
	}
	base := t.TempDir()
	ctrl := gomock.NewController(t)
	defer ctrl.Finish()
	node := &corev1.Node{ObjectMeta: metav1.ObjectMeta{Name: "n"}, Status: corev1.NodeStatus{Allocatable: corev1.ResourceList{
		corev1.ResourceCPU: resource.MustParse("16"), corev1.ResourceMemory: resource.MustParse("64Gi")}}}

	n := h.N(800, 6000)
	for idx := 0; idx < n; idx++ {
		r := h.Begin(idx)
		if r == nil {
			continue
		}
		root := filepath.Join(base, fmt.Sprintf("c%d", idx))
		sysutil.Conf.CgroupRootDir = root
		v2 := r.Bool()
		sysutil.UseCgroupsV2.Store(v2)
		systemd := r.Bool()
		if systemd {
			sysutil.SetupCgroupPathFormatter(sysutil.Systemd)
		} else {
			sysutil.SetupCgroupPathFormatter(sysutil.Cgroupfs)
		}
		var files [2]sysutil.Resource
		for k, rt := range []sysutil.ResourceType{sysutil.MemoryMinName, sysutil.MemoryLowName} {
			f, err := sysutil.GetCgroupResource(rt)
			if err != nil {
				t.Fatal(err)
			}
			files[k] = f
		}
		tr := &c12cgTree{h: h, obsRes: r.Intn(2)}
		addDir := func(dir string, parent int) int {
			tr.parent = append(tr.parent, parent)
			for k := 0; k < 2; k++ {
				p := files[k].Path(dir)
				tr.paths[k] = append(tr.paths[k], p)
				if err := os.MkdirAll(filepath.Dir(p), 0o755); err != nil {
					t.Fatal(err)
				}
			}
			return len(tr.parent) - 1
		}
		qosDirs := []string{koordletutil.GetPodQoSRelativePath(corev1.PodQOSGuaranteed), koordletutil.GetPodQoSRelativePath(corev1.PodQOSBurstable),
			koordletutil.GetPodQoSRelativePath(corev1.PodQOSBestEffort)}
		addDir(qosDirs[0], -1)
		addDir(qosDirs[1], 0)
		addDir(qosDirs[2], 0)
		np := r.Range(1, 4)
		var pods []*c12cgPod
		for pi := 0; pi < np; pi++ {
			p := &c12cgPod{kube: r.Intn(3), active: true}
			uid := fmt.Sprintf("u%dx%d", idx, pi)
			pod := &corev1.Pod{
				TypeMeta:   metav1.TypeMeta{Kind: "Pod"},
				ObjectMeta: metav1.ObjectMeta{Name: "p" + uid, Namespace: "ns", UID: types.UID(uid), Labels: map[string]string{}, Annotations: map[string]string{}},
				Status:     corev1.PodStatus{Phase: corev1.PodRunning},
			}
			switch p.kube {
			case 0:
				pod.Status.QOSClass = corev1.PodQOSGuaranteed
				p.class = r.Intn(2)
			case 1:
				pod.Status.QOSClass = corev1.PodQOSBurstable
				p.class = 1
			default:
				pod.Status.QOSClass = corev1.PodQOSBestEffort
				p.class = 2
			}
			pod.Labels[apiext.LabelPodQoS] = []string{string(apiext.QoSLSR), string(apiext.QoSLS), string(apiext.QoSBE)}[p.class]
			if p.class != 2 && p.kube != 0 && r.Chance(1, 4) {
				delete(pod.Labels, apiext.LabelPodQoS) // default by the kubernetes class: Burstable -> LS
			}
			if r.Chance(1, 10) {
				pod.Status.Phase = corev1.PodPending
			}
			if r.Chance(1, 10) {
				pod.Status.Phase = corev1.PodSucceeded
				p.active = false
			}
			// pod-level memory qos annotation
			switch r.Intn(8) {
			case 0:
				p.polNone = true
				pod.Annotations[slov1alpha1.AnnotationPodMemoryQoS] = `{"policy":"none"}`
			case 1:
				cfg := slov1alpha1.PodMemoryQOSConfig{Policy: slov1alpha1.PodMemoryQOSPolicyDefault}
				if r.Bool() {
					cfg.Policy = ""
				}
				k := r.Intn(2)
				v := []int64{0, 20, 50, 100}[r.Intn(4)]
				p.ovr[k] = &v
				if k == 0 {
					cfg.MinLimitPercent = &v
				} else {
					cfg.LowLimitPercent = &v
				}
				b, _ := json.Marshal(cfg)
				pod.Annotations[slov1alpha1.AnnotationPodMemoryQoS] = string(b)
			case 2:
				pod.Annotations[slov1alpha1.AnnotationPodMemoryQoS] = `{"policy":` // unparsable: ignored
			}
			var podDir string
			sub := []string{"", "burstable", "besteffort"}[p.kube]
			if systemd {
				if sub == "" {
					podDir = fmt.Sprintf("kubepods.slice/kubepods-pod%s.slice/", uid)
				} else {
					podDir = fmt.Sprintf("kubepods.slice/kubepods-%s.slice/kubepods-%s-pod%s.slice/", sub, sub, uid)
				}
			} else {
				podDir = filepath.Join("kubepods", sub, "pod"+uid) + "/"
			}
			p.node = addDir(podDir, p.kube)
			nc := r.Range(1, 2)
			for ci := 0; ci < nc; ci++ {
				rq := r.Pick(c12cgReqs)
				if r.Chance(1, 3) {
					rq = int64(r.Range(1, 4000)) << 20
				}
				cname := fmt.Sprintf("c%d", ci)
				cid := fmt.Sprintf("containerd://k%dx%dx%d", idx, pi, ci)
				c := corev1.Container{Name: cname}
				if rq >= 0 {
					if p.class == 2 {
						c.Resources.Requests = corev1.ResourceList{apiext.BatchMemory: *resource.NewQuantity(rq, resource.BinarySI)}
						c.Resources.Limits = corev1.ResourceList{apiext.BatchMemory: *resource.NewQuantity(rq, resource.BinarySI)}
					} else {
						c.Resources.Requests = corev1.ResourceList{corev1.ResourceMemory: *resource.NewQuantity(rq, resource.BinarySI)}
						c.Resources.Limits = corev1.ResourceList{corev1.ResourceMemory: *resource.NewQuantity(rq, resource.BinarySI)}
					}
				}
				pod.Spec.Containers = append(pod.Spec.Containers, c)
				pod.Status.ContainerStatuses = append(pod.Status.ContainerStatuses, corev1.ContainerStatus{Name: cname, ContainerID: cid})
				cdir, err := koordletutil.GetContainerCgroupParentDirByID(podDir, cid)
				if err != nil {
					t.Fatal(err)
				}
				p.ctrs = append(p.ctrs, c12cgCtr{node: addDir(cdir, p.node), req: rq})
			}
			p.meta = &statesinformer.PodMeta{Pod: pod, CgroupDir: podDir}
			pods = append(pods, p)
		}
		nn := len(tr.parent)
		tr.nn = nn
		genCfg := func() (*c12cgCfg, bool) {
			var c c12cgCfg
			off := r.Chance(1, 5)
			shape := r.Intn(6)
			for cl := 0; cl < 3; cl++ {
				for k := 0; k < 2; k++ {
					switch {
					case off:
						c[cl][k] = ptr.To[int64](0)
					case shape == 0: // everything full
						c[cl][k] = ptr.To[int64](100)
					case shape == 1: // everything zero
						c[cl][k] = ptr.To[int64](0)
					default:
						c[cl][k] = c12cgPcts[r.Intn(len(c12cgPcts))]
					}
				}
			}
			return &c, off
		}
		// start: fresh cgroups (0) or what an earlier NodeSLO left
		var start [2][]int64
		for k := 0; k < 2; k++ {
			start[k] = make([]int64, nn)
		}
		if r.Chance(2, 3) {
			c0, _ := genCfg()
			w := c12cgWant(c0, pods, nn)
			for k := 0; k < 2; k++ {
				for i := range start[k] {
					if w[k][i] != nil {
						start[k][i] = *w[k][i]
					}
				}
			}
		}
		for k := 0; k < 2; k++ {
			tr.vals[k] = append([]int64(nil), start[k]...)
			for i := 0; i < nn; i++ {
				if err := os.WriteFile(tr.paths[k][i], []byte(strconv.FormatInt(start[k][i], 10)), 0o644); err != nil {
					t.Fatal(err)
				}
				tr.arm(k, i)
			}
		}
		pi64 := make([]int64, nn)
		for i, p := range tr.parent {
			pi64[i] = int64(p)
		}
		h.Op("tree %d %d %d %s %s", 2+tr.obsRes, vB(v2), nn, vInts(pi64), vInts(start[tr.obsRes]))
		h.Tag(fmt.Sprintf("cgr:res=%d:v2=%d:systemd=%d", 2+tr.obsRes, vB(v2), vB(systemd)))
		h.Tag(fmt.Sprintf("cgr:dirs:%d", c12cgBucket(nn)))

		real := &resourceexecutor.ResourceUpdateExecutorImpl{ResourceCache: cache.NewCacheDefault(), Config: resourceexecutor.NewDefaultConfig()}
		stop := make(chan struct{})
		real.Run(stop)
		ex := &c12cgExec{inner: real, t: tr}
		si := mockstatesinformer.NewMockStatesInformer(ctrl)
		var shownMetas []*statesinformer.PodMeta
		si.EXPECT().GetNode().Return(node).AnyTimes()
		si.EXPECT().GetAllPods().DoAndReturn(func() []*statesinformer.PodMeta { return shownMetas }).AnyTimes()
		m := &cgroupResourcesReconcile{statesInformer: si, executor: ex}

		steps := r.Range(1, 4)
		for s := 0; s < steps; s++ {
			cfg, off := genCfg()
			if off {
				h.Tag("cgr:memory-qos-off")
			}
			mk := func(cl int) *slov1alpha1.ResourceQOS {
				q := &slov1alpha1.ResourceQOS{MemoryQOS: &slov1alpha1.MemoryQOSCfg{Enable: ptr.To[bool](!off)}}
				if off {
					q.MemoryQOS.MemoryQOS = *sloconfig.NoneMemoryQOS()
					// the static knobs of the template have no files in this tree; leave only the protections
					q.MemoryQOS.WmarkRatio, q.MemoryQOS.WmarkScalePermill, q.MemoryQOS.WmarkMinAdj = nil, nil, nil
					q.MemoryQOS.PriorityEnable, q.MemoryQOS.Priority, q.MemoryQOS.OomKillGroup = nil, nil, nil
					q.MemoryQOS.ThrottlingPercent = nil
				}
				q.MemoryQOS.MinLimitPercent, q.MemoryQOS.LowLimitPercent = cfg[cl][0], cfg[cl][1]
				return q
			}
			slo := &slov1alpha1.NodeSLO{Spec: slov1alpha1.NodeSLOSpec{ResourceQOSStrategy: &slov1alpha1.ResourceQOSStrategy{
				LSRClass: mk(0), LSClass: mk(1), BEClass: mk(2)}}}
			shownMetas = nil
			var shown []*c12cgPod
			for _, q := range pods {
				if !r.Chance(1, 8) {
					shownMetas = append(shownMetas, q.meta)
					shown = append(shown, q)
				}
			}
			expired := r.Chance(1, 4)
			real.Config.ResourceForceUpdateSeconds = 60
			if expired {
				real.Config.ResourceForceUpdateSeconds = -1
			}
			want := c12cgWant(cfg, shown, nn)
			var begin, tgt [2][]int64
			for k := 0; k < 2; k++ {
				begin[k] = append([]int64(nil), tr.vals[k]...)
				tgt[k] = append([]int64(nil), begin[k]...)
				for i := range tgt[k] {
					if want[k][i] != nil {
						tgt[k][i] = *want[k][i]
					}
				}
			}
			// the batch for the observed resource: [kubepods, burstable, besteffort], pods in list order, containers
			k := tr.obsRes
			var lv [3][]int64
			for i := 0; i < 3; i++ {
				if want[k][i] != nil {
					lv[0] = append(lv[0], int64(i), *want[k][i], 1)
				}
			}
			for _, q := range shown {
				if !q.active {
					continue
				}
				if want[k][q.node] != nil {
					lv[1] = append(lv[1], int64(q.node), *want[k][q.node], 1)
				}
				for _, c := range q.ctrs {
					if want[k][c.node] != nil {
						lv[2] = append(lv[2], int64(c.node), *want[k][c.node], 1)
					}
				}
			}
			h.Op("batchk %d 3 %d %d %d %s", vB(expired), len(lv[0])/3, len(lv[1])/3, len(lv[2])/3,
				strings.Join(strings.Fields(vInts(lv[0])+" "+vInts(lv[1])+" "+vInts(lv[2])), " "))

			for kk := 0; kk < 2; kk++ {
				tr.writes[kk], tr.bad[kk], tr.badQos[kk], tr.badAt[kk] = tr.writes[kk][:0], false, false, nil
			}
			tr.garble, tr.multi, tr.nonMerg = false, false, 0
			ex.calls = 0
			if h.Guard(func() { m.calculateAndUpdateResources(slo) }) {
				h.Obs("panic")
			}
			tr.inspect()
			var final [2][]int64
			for kk := 0; kk < 2; kk++ {
				final[kk] = make([]int64, nn)
				for i, pth := range tr.paths[kk] {
					b, _ := os.ReadFile(pth)
					v, ok := c12cgParse(string(b))
					if !ok {
						v = -3
					}
					final[kk][i] = v
				}
			}
			h.Obs("st %s", vInts(final[k]))

			// ---------------- property oracle ----------------
			if tr.nonMerg > 0 {
				h.Tag("cgr:updater-not-mergeable-observed")
			}
			if tr.multi {
				h.Tag("cgr:several-writes-between-two-looks")
			}
			anyChange := false
			for kk := 0; kk < 2; kk++ {
				name := []string{"memory.min", "memory.low"}[kk]
				changed, toZero := 0, false
				for i := range tgt[kk] {
					if tgt[kk][i] != begin[kk][i] {
						changed++
						if tgt[kk][i] == 0 {
							toZero = true
						}
					}
				}
				if changed > 0 {
					anyChange = true
				}
				if toZero {
					h.Tag("cgr:" + name + ":back-to-zero")
				}
				okStart := tr.valid(begin[kk], false) && tr.valid(begin[kk], true)
				okTgt := tr.valid(tgt[kk], false) && tr.valid(tgt[kk], true)
				switch {
				case tr.garble:
					h.Tag("cgr:oracle:garbled")
				case !okTgt:
					// pod / container memory.low is raised to memory.min, the qos sum is not: the target itself is invalid
					h.Tag("cgr:" + name + ":target-invalid")
				case !okStart:
					h.Tag("cgr:" + name + ":start-invalid")
				default:
					h.Tag("cgr:oracle:full")
					if changed > 0 {
						h.Nontrivial()
					}
					if tr.bad[kk] {
						h.Fail("C12:cgreconcile-invalid-intermediate", "calculateAndUpdateResources: after some %s write a child's protection exceeds its parent's (v2 %v, parents %v, start %v, target %v, writes %v, contents then %v)", name, v2, tr.parent, begin[kk], tgt[kk], tr.writes[kk], tr.badAt[kk])
					}
					if tr.badQos[kk] {
						h.Fail("C12:cgreconcile-invalid-intermediate:kubepods-before-qos-child", "calculateAndUpdateResources: after some %s write burstable / besteffort holds more than kubepods (v2 %v, parents %v, start %v, target %v, writes %v)", name, v2, tr.parent, begin[kk], tgt[kk], tr.writes[kk])
					}
					if changed > 0 && begin[kk][0] > tgt[kk][0] && (begin[kk][1] > tgt[kk][1] || begin[kk][2] > tgt[kk][2]) {
						h.Tag("cgr:" + name + ":kubepods-and-qos-child-shrink")
					}
				}
				for i := range tgt[kk] {
					if final[kk][i] != tgt[kk][i] {
						h.Fail("C12:cgreconcile-final-not-target", "%s of dir %d holds %d, target %d (start %v, target %v)", name, i, final[kk][i], tgt[kk][i], begin[kk], tgt[kk])
						break
					}
				}
				cur := append([]int64(nil), begin[kk]...)
				for _, w := range tr.writes[kk] {
					i, v := int(w[0]), w[1]
					if tgt[kk][i] == begin[kk][i] || cur[i] == v {
						h.Fail("C12:cgreconcile-redundant-write", "%s of dir %d (start %d, target %d) written with %d while holding %d", name, i, begin[kk][i], tgt[kk][i], v, cur[i])
						break
					}
					cur[i] = v
				}
			}
			if !anyChange {
				h.Tag("cgr:no-change")
			}
			h.Tag(fmt.Sprintf("cgr:leveled-calls:%d", ex.calls))
		}
		close(stop)
		h.End()
		_ = os.RemoveAll(root)
	}
	h.Close("kubepods / burstable / besteffort + 1-4 pods (Guaranteed LSR|LS, Burstable LS, BestEffort BE; running / pending / terminated; 1-2 containers, memory requests " +
		"100Mi..4000Mi or none; pod annotation: policy none, percent override, unparsable) in a temp cgroup root (cgroup v1/v2, systemd/cgroupfs); start = fresh (0) or " +
		"the values of a random NodeSLO; 1-4 NodeSLOs (min/low percent per class nil/0/30/50/100, all 100, all 0, memory QoS off = None template), a random 7/8 of the " +
		"pods shown, cache fresh or force-expired, then the real calculateAndUpdateResources; non-trivial = full oracle and >= 1 file changes; distinct by op lines")
}

func c12cgBucket(n int) int {
	switch {
	case n <= 6:
		return n
	case n <= 9:
		return 9
	default:
		return 15
	}
}
