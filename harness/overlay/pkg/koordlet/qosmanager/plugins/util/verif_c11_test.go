//go:build verif

package util

import (
	"fmt"
	"sort"
	"strconv"
	"strings"
	"testing"

	corev1 "k8s.io/api/core/v1"
	"k8s.io/apimachinery/pkg/api/resource"
	metav1 "k8s.io/apimachinery/pkg/apis/meta/v1"

	apiext "github.com/koordinator-sh/koordinator/apis/extension"
)

// C11 harness `kill`: drive the real KillAndEvictPods with generated tasks (1-3 tasks over
// three release-target types and four resource names, shared pods, per-pod release amounts read
// from PodEvictInfo fields) and a scripted recording EvictionExecutor (already-evicted pods,
// individual Evict calls failing).  Observed: the sequence of Evict calls, the returned
// ReleaseList, the newlyEvicted flag.  The oracle re-evaluates the property on that trace.

var c11ResNames = []corev1.ResourceName{corev1.ResourceCPU, corev1.ResourceMemory, apiext.BatchCPU, apiext.BatchMemory}
var c11Targets = []ReleaseTargetType{ReleaseTargetTypeResourceUsed, ReleaseTargetTypeResourceRequest, ReleaseTargetTypeBatchResourceRequest}

func c11Qty(res int, v int64) resource.Quantity {
	if res == 0 {
		return *resource.NewMilliQuantity(v, resource.DecimalSI) // cpu: amounts are milli
	}
	return *resource.NewQuantity(v, resource.BinarySI)
}

func c11QtyInt(res int, q resource.Quantity) int64 {
	if res == 0 {
		return q.MilliValue()
	}
	return q.Value()
}

func c11ResIdx(n corev1.ResourceName) int {
	for i, x := range c11ResNames {
		if x == n {
			return i
		}
	}
	return -1
}

func c11TargetIdx(n ReleaseTargetType) int {
	for i, x := range c11Targets {
		if x == n {
			return i
		}
	}
	return -1
}

func c11Field(info *PodEvictInfo, i int) int64 {
	switch i {
	case 0:
		return info.MilliCPURequest
	case 1:
		return info.MilliCPUUsed
	case 2:
		return info.MemoryRequest
	default:
		return info.MemoryUsed
	}
}

type c11Call struct {
	task, pod int
	ok        bool
}

// recording executor: IsPodEvicted from a fixed set, Evict results from a script.
type c11Exec struct {
	isev   map[int]bool
	script []bool
	calls  []c11Call
	bad    bool
}

func c11PodKeyOf(pod *corev1.Pod) int {
	n, err := strconv.Atoi(strings.TrimPrefix(pod.Name, "p"))
	if err != nil {
		return -1
	}
	return n
}

func (x *c11Exec) Evict(pod *corev1.Pod, node *corev1.Node, releaseReason string, message string) bool {
	ti := -1
	if strings.HasPrefix(message, "t") {
		if i := strings.Index(message, ","); i > 0 {
			if n, err := strconv.Atoi(message[1:i]); err == nil {
				ti = n
			}
		}
	}
	if ti < 0 {
		x.bad = true
	}
	ok := true
	if len(x.calls) < len(x.script) {
		ok = x.script[len(x.calls)]
	}
	x.calls = append(x.calls, c11Call{task: ti, pod: c11PodKeyOf(pod), ok: ok})
	return ok
}

func (x *c11Exec) IsPodEvicted(pod *corev1.Pod) bool { return x.isev[c11PodKeyOf(pod)] }

type c11Task struct {
	target int
	isNil  bool        // ToReleaseResource == nil
	to     [][2]int64  // (res, amount)
	fnNil  bool        // function returns nil
	fn     [][2]int    // (res, field)
	pods   []int       // pod keys in eviction order
}

func TestVerifC11Kill(t *testing.T) {
	h := vOpen("C11")
	if h == nil {
		t.Skip("VERIF_OUT not set")
	}
	n := h.N(4000, 150000)
	for idx := 0; idx < n; idx++ {
		r := h.Begin(idx)
		if r == nil {
			continue
		}
		nPods := r.Range(1, 6)
		fields := make([][4]int64, nPods)
		for i := range fields {
			for f := 0; f < 4; f++ {
				if r.Chance(1, 6) {
					fields[i][f] = 0
				} else {
					fields[i][f] = int64(r.Range(1, 12))
				}
			}
		}
		nTasks := r.Range(1, 3)
		if r.Chance(1, 12) {
			nTasks = 4
		}
		sameTarget := r.Chance(1, 3) // steer to overlapping targets
		tasks := make([]c11Task, nTasks)
		for ti := range tasks {
			tk := &tasks[ti]
			tk.target = r.Intn(3)
			if sameTarget && ti > 0 && r.Chance(2, 3) {
				tk.target = tasks[0].target
			}
			switch r.Intn(12) {
			case 0:
				tk.isNil = true
			case 1: // empty list
			default:
				perm := r.Perm(4)
				nTo := 1
				if r.Chance(1, 3) {
					nTo = 2
				}
				for _, res := range perm[:nTo] {
					amt := int64(r.Range(1, 30))
					if r.Chance(1, 10) {
						amt = int64(r.Range(-3, 0))
					}
					tk.to = append(tk.to, [2]int64{int64(res), amt})
				}
				sort.Slice(tk.to, func(i, j int) bool { return tk.to[i][0] < tk.to[j][0] })
			}
			if r.Chance(1, 15) {
				tk.fnNil = true
			} else {
				// mostly: the function reports the resources of the target; sometimes others
				used := map[int]bool{}
				for _, ra := range tk.to {
					if r.Chance(11, 12) {
						tk.fn = append(tk.fn, [2]int{int(ra[0]), r.Intn(4)})
						used[int(ra[0])] = true
					}
				}
				if r.Chance(1, 4) {
					res := r.Intn(4)
					if !used[res] {
						tk.fn = append(tk.fn, [2]int{res, r.Intn(4)})
					}
				}
			}
			perm := r.Perm(nPods)
			k := r.Range(0, nPods)
			if k == 0 && r.Chance(2, 3) {
				k = r.Range(1, nPods)
			}
			tk.pods = append(tk.pods, perm[:k]...)
			if k > 0 && r.Chance(1, 12) {
				tk.pods = append(tk.pods, tk.pods[r.Intn(k)]) // the same pod listed twice
			}
		}
		isev := map[int]bool{}
		var isevL []int64
		for p := 0; p < nPods; p++ {
			if r.Chance(1, 6) {
				isev[p] = true
				isevL = append(isevL, int64(p))
			}
		}
		total := 0
		for _, tk := range tasks {
			total += len(tk.pods)
		}
		script := make([]bool, total)
		allOK := r.Chance(1, 3)
		for i := range script {
			script[i] = allOK || r.Chance(3, 4)
		}

		// ---- build the real inputs
		infosOf := func(p int) *PodEvictInfo {
			return &PodEvictInfo{
				Pod:             &corev1.Pod{ObjectMeta: metav1.ObjectMeta{Namespace: "ns", Name: fmt.Sprintf("p%d", p), UID: "u"}},
				MilliCPURequest: fields[p][0], MilliCPUUsed: fields[p][1], MemoryRequest: fields[p][2], MemoryUsed: fields[p][3],
			}
		}
		var real []*EvictTaskInfo
		for ti := range tasks {
			tk := tasks[ti]
			et := &EvictTaskInfo{Reason: fmt.Sprintf("t%d", ti), ReleaseTarget: c11Targets[tk.target]}
			if !tk.isNil {
				et.ToReleaseResource = corev1.ResourceList{}
				for _, ra := range tk.to {
					et.ToReleaseResource[c11ResNames[ra[0]]] = c11Qty(int(ra[0]), ra[1])
				}
			}
			et.GetPodResourceFunc = func(info *PodEvictInfo) corev1.ResourceList {
				if tk.fnNil {
					return nil
				}
				rl := corev1.ResourceList{}
				for _, rf := range tk.fn {
					rl[c11ResNames[rf[0]]] = c11Qty(rf[0], c11Field(info, rf[1]))
				}
				return rl
			}
			for _, p := range tk.pods {
				et.SortedEvictPods = append(et.SortedEvictPods, infosOf(p))
			}
			real = append(real, et)
		}

		// ---- ops
		for _, tk := range tasks {
			var xs []int64
			for _, ra := range tk.to {
				xs = append(xs, ra[0], ra[1])
			}
			for _, rf := range tk.fn {
				xs = append(xs, int64(rf[0]), int64(rf[1]))
			}
			for _, p := range tk.pods {
				xs = append(xs, int64(p), fields[p][0], fields[p][1], fields[p][2], fields[p][3])
			}
			h.Op("task %d %d %d %d %s", tk.target, len(tk.to), len(tk.fn), len(tk.pods), vInts(xs))
		}
		h.Op("isev %d %s", len(isevL), vInts(isevL))
		sc := make([]int64, len(script))
		for i, b := range script {
			sc[i] = int64(vB(b))
		}
		h.Op("script %d %s", len(sc), vInts(sc))
		h.Op("kill")
		h.Tag(fmt.Sprintf("tasks:%d", nTasks))

		// ---- run the real code
		ex := &c11Exec{isev: isev, script: script}
		var released ReleaseList
		var newly bool
		if h.Guard(func() { released, newly = KillAndEvictPods(ex, &corev1.Node{}, real) }) {
			h.Obs("panic")
			h.Fail("C11:panic", "KillAndEvictPods panicked")
			h.End()
			continue
		}
		for _, c := range ex.calls {
			h.Obs("evict %d %d %d", c.task, c.pod, vB(c.ok))
		}
		type kv struct {
			t, r int
			v    int64
		}
		var rel []kv
		relAt := map[[2]int]int64{}
		for tt, rl := range released {
			for rn, q := range rl {
				ti, ri := c11TargetIdx(tt), c11ResIdx(rn)
				v := c11QtyInt(ri, q)
				relAt[[2]int{ti, ri}] = v
				if v != 0 {
					rel = append(rel, kv{ti, ri, v})
				}
			}
		}
		sort.Slice(rel, func(i, j int) bool { return rel[i].t < rel[j].t || (rel[i].t == rel[j].t && rel[i].r < rel[j].r) })
		for _, x := range rel {
			h.Obs("rel %d %d %d", x.t, x.r, x.v)
		}
		h.Obs("newly %d", vB(newly))
		if ex.bad {
			h.Fail("C11:harness-reason", "could not attribute an Evict call to a task")
		}

		// ---- property oracle (independent of the implementation) ----
		// release of pod p as task k's own function reports it
		own := func(k, p, res int) int64 {
			tk := tasks[k]
			if tk.fnNil {
				return 0
			}
			for _, rf := range tk.fn {
				if rf[0] == res {
					return fields[p][rf[1]]
				}
			}
			return 0
		}
		counted := map[int]bool{} // successfully evicted in this round or seen as still terminating
		var countedL []int
		// short resources of task k given the counted pods: target amount > what the counted pods release
		short := func(k int) []int {
			var out []int
			for _, ra := range tasks[k].to {
				var sum int64
				for _, p := range countedL {
					sum += own(k, p, int(ra[0]))
				}
				if ra[1] > sum {
					out = append(out, int(ra[0]))
				}
			}
			return out
		}
		pos := make([]int, nTasks) // scan position inside each task's list
		lastTask := 0
		anyOK := false
		strictDiff := false
		for _, c := range ex.calls {
			if c.task < 0 || c.task >= nTasks {
				continue
			}
			if c.task < lastTask {
				h.Fail("C11:out-of-order", "Evict for task %d after task %d", c.task, lastTask)
			}
			lastTask = c.task
			tk := tasks[c.task]
			// the call must be the next occurrence of the pod in the published order; pods passed on
			// the way that are already evicted (still present) are credited as pending release.
			found := -1
			for i := pos[c.task]; i < len(tk.pods); i++ {
				if tk.pods[i] == c.pod {
					found = i
					break
				}
			}
			if found < 0 {
				inList := false
				for _, p := range tk.pods {
					inList = inList || p == c.pod
				}
				if inList {
					h.Fail("C11:out-of-order", "task %d: pod %d evicted out of the published order", c.task, c.pod)
				} else {
					h.Fail("C11:not-a-candidate", "task %d: pod %d is not in the task's victim list", c.task, c.pod)
				}
			} else {
				for i := pos[c.task]; i < found; i++ {
					p := tk.pods[i]
					if isev[p] && !counted[p] {
						counted[p] = true
						countedL = append(countedL, p)
					}
				}
				pos[c.task] = found + 1
			}
			if counted[c.pod] {
				h.Fail("C11:double-evict", "task %d: pod %d passed to Evict after it was evicted / counted as terminating", c.task, c.pod)
			}
			if isev[c.pod] {
				h.Fail("C11:evict-already-evicted", "task %d: pod %d is already evicted (terminating) but evicted again", c.task, c.pod)
			}
			sh := short(c.task)
			if len(sh) == 0 {
				h.Fail("C11:evict-after-met", "task %d: pod %d evicted although the target is already covered", c.task, c.pod)
			} else {
				frees := false
				for _, res := range sh {
					if own(c.task, c.pod, res) > 0 {
						frees = true
					}
				}
				if !frees {
					h.Fail("C11:victim-frees-nothing-short", "task %d: pod %d releases nothing of the short resources %v", c.task, c.pod, sh)
				}
				// informational: would the target be covered if every terminating pod of the list were credited up front?
				var all []int
				all = append(all, countedL...)
				for _, p := range tk.pods {
					if isev[p] && !counted[p] {
						all = append(all, p)
					}
				}
				save := countedL
				countedL = all
				if len(short(c.task)) == 0 {
					strictDiff = true
				}
				countedL = save
			}
			if c.ok {
				anyOK = true
				if !counted[c.pod] {
					counted[c.pod] = true
					countedL = append(countedL, c.pod)
				}
			}
		}
		// terminating pods are counted: the returned list credits every counted pod's release
		// toward every task that names the resource (at least its own function's amount)
		// pods scanned after the last Evict call of a task are not reconstructed here, so this is a lower bound.
		for k, tk := range tasks {
			for _, ra := range tk.to {
				if ra[1] <= 0 {
					continue
				}
				var sum int64
				for _, p := range countedL {
					sum += own(k, p, int(ra[0]))
				}
				if relAt[[2]int{tk.target, int(ra[0])}] < sum {
					h.Fail("C11:release-undercounted", "task %d res %d: returned %d < released by victims %d", k, ra[0], relAt[[2]int{tk.target, int(ra[0])}], sum)
				}
			}
		}
		if newly != anyOK {
			h.Fail("C11:newly-flag", "newlyEvicted=%v but successful evictions=%v", newly, anyOK)
		}
		if strictDiff {
			h.Tag("note:terminating-later-in-list-would-cover")
		}
		h.Tag(fmt.Sprintf("calls:%d", len(ex.calls)))
		if len(ex.calls) >= 2 {
			h.Nontrivial()
		}
		h.End()
	}
	h.Close("1-4 generated eviction tasks over 3 target types x 4 resources (nil/empty/non-positive targets, shared and distinct targets), " +
		"1-6 shared pods with 4 release fields (0..12), lists = random sub-permutations (rare duplicates), random already-evicted set, " +
		"scripted Evict failures; non-trivial = at least 2 Evict calls; distinct by op lines")
}
