//go:build verif

package util

import (
	"context"
	"flag"
	"fmt"
	"io"
	"sort"
	"strconv"
	"strings"
	"testing"
	"time"

	corev1 "k8s.io/api/core/v1"
	policyv1 "k8s.io/api/policy/v1"
	apierrors "k8s.io/apimachinery/pkg/api/errors"
	metav1 "k8s.io/apimachinery/pkg/apis/meta/v1"
	"k8s.io/apimachinery/pkg/runtime"
	"k8s.io/apimachinery/pkg/runtime/schema"
	"k8s.io/apimachinery/pkg/types"
	clientsetfake "k8s.io/client-go/kubernetes/fake"
	clienttesting "k8s.io/client-go/testing"
	"k8s.io/klog/v2"
)

// C11 harness `rounds`: SEVERAL consecutive KillAndEvictPods rounds over one pod universe against the
// REAL Evictor (TTL cache podsEvicted, default TTL) + DefaultEvictionExecutor (both OnlyEvictByAPI
// settings), behind a fake clientset whose eviction reactor answers from a script
// (ok / 429 / 404 / 500 / timeout / 403 / transport error).  Between rounds pods whose eviction succeeded
// linger (terminating) and then disappear, others vanish or appear, the targets and the orders change.
// Observed per round: the Evict calls and their results (a pass-through recorder in front of the real
// executor), the returned ReleaseList, newlyEvicted, the number of eviction API calls, EvictTaskCheck per
// task; after the round IsPodEvicted for every pod.  The oracle evaluates the property over the whole
// multi-round history.

const c11xTTLSeconds = 120 // pkg/util/cache defaultExpiration (tied by Ties/C11: cache_default_expiration)

var c11xCodeNames = []string{"ok", "429", "404", "500", "timeout", "403", "neterr"}

type c11xAPICall struct {
	pod  int
	code int
	uid  string
}

type c11xAPI struct {
	script []int
	calls  []c11xAPICall
}

func (a *c11xAPI) react(action clienttesting.Action) (bool, runtime.Object, error) {
	if action.GetSubresource() != "eviction" {
		return false, nil, nil
	}
	ca, ok := action.(clienttesting.CreateAction)
	if !ok {
		return false, nil, nil
	}
	ev, ok := ca.GetObject().(*policyv1.Eviction)
	if !ok {
		return false, nil, nil
	}
	code := 0
	if len(a.calls) < len(a.script) {
		code = a.script[len(a.calls)]
	}
	pod := -1
	if n, err := strconv.Atoi(strings.TrimPrefix(ev.Name, "p")); err == nil {
		pod = n
	}
	uid := ""
	if ev.DeleteOptions != nil && ev.DeleteOptions.Preconditions != nil && ev.DeleteOptions.Preconditions.UID != nil {
		uid = string(*ev.DeleteOptions.Preconditions.UID)
	}
	a.calls = append(a.calls, c11xAPICall{pod: pod, code: code, uid: uid})
	gr := schema.GroupResource{Resource: "pods"}
	switch code {
	case 0:
		return true, nil, nil
	case 1:
		return true, nil, apierrors.NewTooManyRequests("Cannot evict pod as it would violate the pod's disruption budget.", 1)
	case 2:
		return true, nil, apierrors.NewNotFound(gr, ev.Name)
	case 3:
		return true, nil, apierrors.NewInternalError(fmt.Errorf("boom"))
	case 4:
		return true, nil, apierrors.NewTimeoutError("request timed out", 1)
	case 5:
		return true, nil, apierrors.NewForbidden(gr, ev.Name, fmt.Errorf("denied"))
	default:
		return true, nil, context.DeadlineExceeded
	}
}

type c11xRecorder struct{ ok, fail, other int }

func (f *c11xRecorder) Event(object runtime.Object, eventType, reason, message string) {
	switch reason {
	case "evictPodSuccess":
		f.ok++
	case "evictPodFail":
		f.fail++
	default:
		f.other++
	}
}
func (f *c11xRecorder) Eventf(object runtime.Object, eventType, reason, messageFmt string, args ...interface{}) {
	f.Event(object, eventType, reason, messageFmt)
}
func (f *c11xRecorder) AnnotatedEventf(object runtime.Object, annotations map[string]string, eventType, reason, messageFmt string, args ...interface{}) {
	f.Event(object, eventType, reason, messageFmt)
}

// pass-through recorder in front of the real executor
type c11xExec struct {
	inner EvictionExecutor
	calls []c11Call
	bad   bool
}

func (x *c11xExec) Evict(pod *corev1.Pod, node *corev1.Node, releaseReason string, message string) bool {
	ti := -1
	if strings.HasPrefix(message, "t") {
		if i := strings.Index(message, ","); i > 0 {
			if n, err := strconv.Atoi(message[1:i]); err == nil {
				ti = n
			}
		}
	}
	if ti < 0 {
		x.bad = true
	}
	ok := x.inner.Evict(pod, node, releaseReason, message)
	x.calls = append(x.calls, c11Call{task: ti, pod: c11PodKeyOf(pod), ok: ok})
	return ok
}
func (x *c11xExec) IsPodEvicted(pod *corev1.Pod) bool { return x.inner.IsPodEvicted(pod) }

type c11xTaskTmpl struct {
	target int
	res    []int // resources of the target
	fn     [][2]int
	order  []int // base order over the universe
}

type c11xRTask struct {
	to   [][2]int64
	pods []int
}

// one history: static part + a callback that yields the inputs of round rd given the Evict calls of round rd-1
type c11xPlan struct {
	nPods            int
	fields           [][4]int64
	onlyAPI, started bool
	nRounds          int
	tmpl             []c11xTaskTmpl
	round            func(rd int, prev []c11Call) (rts []c11xRTask, script []int)
}

// c11xRun drives the real executor through the planned history, emits ops / observations and evaluates the
// property oracle over the whole history.  The caller has called h.Begin; c11xRun calls h.End.
func c11xRun(h *vHarness, t *testing.T, plan *c11xPlan) {
	caseStart := time.Now()
	nPods, fields, onlyAPI, started, nRounds, tmpl := plan.nPods, plan.fields, plan.onlyAPI, plan.started, plan.nRounds, plan.tmpl
	nTasks := len(tmpl)
	// ---- the real executor
	api := &c11xAPI{}
	client := clientsetfake.NewSimpleClientset()
	client.PrependReactor("create", "pods", api.react)
	rec := &c11xRecorder{}
	version := policyv1.SchemeGroupVersion.Version
	evictor := NewEvictor(client, rec, version)
	stop := make(chan struct{})
	if started {
		if err := evictor.Start(stop); err != nil {
			t.Fatal(err)
		}
	}
	inner := InitializeEvictionExecutor(evictor, onlyAPI)
	if _, isDefault := inner.(*DefaultEvictionExecutor); !isDefault {
		t.Fatalf("a custom eviction executor initializer is installed")
	}
	h.Op("xcfg %d %d %d", vB(onlyAPI), vB(started), c11xTTLSeconds)
	h.Tag(fmt.Sprintf("mode:api=%v,started=%v", onlyAPI, started))
	h.Tag(fmt.Sprintf("rounds:%d", nRounds))

	mkPod := func(p int) *corev1.Pod {
		return &corev1.Pod{ObjectMeta: metav1.ObjectMeta{Namespace: "ns", Name: fmt.Sprintf("p%d", p), UID: types.UID(fmt.Sprintf("u%d", p))}}
	}

	// ---- oracle state over the history (independent of the implementation)
	succ := map[int]bool{}       // an eviction API call for the pod succeeded in an earlier round (started executor, API mode)
	lastFailed := map[int]bool{} // the pod's most recent eviction call failed and none succeeded since
	retryScenario, pendingSeen := false, false

	var prevCalls []c11Call
	for rd := 0; rd < nRounds; rd++ {
		rts, script := plan.round(rd, prevCalls)
		var real []*EvictTaskInfo
		for ti, tk := range tmpl {
			tk := tk
			et := &EvictTaskInfo{Reason: fmt.Sprintf("t%d", ti), ReleaseTarget: c11Targets[tk.target], ToReleaseResource: corev1.ResourceList{}}
			for _, ra := range rts[ti].to {
				et.ToReleaseResource[c11ResNames[ra[0]]] = c11Qty(int(ra[0]), ra[1])
			}
			et.GetPodResourceFunc = func(info *PodEvictInfo) corev1.ResourceList {
				rl := corev1.ResourceList{}
				for _, rf := range tk.fn {
					rl[c11ResNames[rf[0]]] = c11Qty(rf[0], c11Field(info, rf[1]))
				}
				return rl
			}
			for _, p := range rts[ti].pods {
				et.SortedEvictPods = append(et.SortedEvictPods, &PodEvictInfo{Pod: mkPod(p),
					MilliCPURequest: fields[p][0], MilliCPUUsed: fields[p][1], MemoryRequest: fields[p][2], MemoryUsed: fields[p][3]})
			}
			real = append(real, et)
		}

		// -- ops
		for ti, tk := range tmpl {
			var xs []int64
			for _, ra := range rts[ti].to {
				xs = append(xs, ra[0], ra[1])
			}
			for _, rf := range tk.fn {
				xs = append(xs, int64(rf[0]), int64(rf[1]))
			}
			for _, p := range rts[ti].pods {
				xs = append(xs, int64(p), fields[p][0], fields[p][1], fields[p][2], fields[p][3])
			}
			h.Op("task %d %d %d %d %s", tk.target, len(rts[ti].to), len(tk.fn), len(rts[ti].pods), vInts(xs))
		}
		sc := make([]int64, len(script))
		for i, c := range script {
			sc[i] = int64(vB(c == 0))
		}
		h.Op("script %d %s", len(sc), vInts(sc))
		h.Op("round 0") // the whole history runs within the TTL (checked below), so model time stands still

		// -- run the real code
		api.script, api.calls = script, nil
		rec.ok, rec.fail, rec.other = 0, 0, 0
		ex := &c11xExec{inner: inner}
		var released ReleaseList
		var newly bool
		if h.Guard(func() { released, newly = KillAndEvictPods(ex, &corev1.Node{}, real) }) {
			h.Obs("panic")
			h.Fail("C11:panic", "KillAndEvictPods panicked in round %d", rd)
			break
		}
		for _, c := range ex.calls {
			h.Obs("evict %d %d %d", c.task, c.pod, vB(c.ok))
		}
		type kv struct {
			t, r int
			v    int64
		}
		var rel []kv
		relAt := map[[2]int]int64{}
		for tt, rl := range released {
			for rn, q := range rl {
				ti, ri := c11TargetIdx(tt), c11ResIdx(rn)
				v := c11QtyInt(ri, q)
				relAt[[2]int{ti, ri}] = v
				if v != 0 {
					rel = append(rel, kv{ti, ri, v})
				}
			}
		}
		sort.Slice(rel, func(i, j int) bool { return rel[i].t < rel[j].t || (rel[i].t == rel[j].t && rel[i].r < rel[j].r) })
		for _, x := range rel {
			h.Obs("rel %d %d %d", x.t, x.r, x.v)
		}
		h.Obs("newly %d", vB(newly))
		h.Obs("api %d", len(api.calls))
		doneImpl := make([]bool, nTasks)
		for ti, et := range real {
			doneImpl[ti], _ = EvictTaskCheck(et, released)
			h.Obs("done %d %d", ti, vB(doneImpl[ti]))
		}
		var all []int64
		for p := 0; p < nPods; p++ {
			all = append(all, int64(p))
		}
		h.Op("iscached 0 %s", vInts(all))
		var cachedL []string
		cachedNow := map[int]bool{}
		for p := 0; p < nPods; p++ {
			if inner.IsPodEvicted(mkPod(p)) {
				cachedL = append(cachedL, strconv.Itoa(p))
				cachedNow[p] = true
			}
		}
		h.Obs("%s", strings.Join(append([]string{"cached"}, cachedL...), " "))
		if ex.bad {
			h.Fail("C11:harness-reason", "could not attribute an Evict call to a task")
		}
		for _, c := range api.calls {
			h.Tag("api-code:" + c11xCodeNames[c.code])
		}

		// ================= property oracle over the history =================
		legit := func(p int) bool { return onlyAPI && started && succ[p] } // truly evicted earlier, still terminating
		own := func(k, p, res int) int64 {
			for _, rf := range tmpl[k].fn {
				if rf[0] == res {
					return fields[p][rf[1]]
				}
			}
			return 0
		}
		// what pod p's removal credits toward (target, res): every task of that target reads the pod once, max wins
		agg := func(target, p, res int) int64 {
			var m int64
			for k := range tmpl {
				if tmpl[k].target == target {
					if v := own(k, p, res); v > m {
						m = v
					}
				}
			}
			return m
		}
		counted := map[int]bool{}
		var countedL []int
		count := func(p int) {
			if !counted[p] {
				counted[p] = true
				countedL = append(countedL, p)
			}
		}
		short := func(k int) []int {
			var out []int
			for _, ra := range rts[k].to {
				var sum int64
				for _, p := range countedL {
					sum += agg(tmpl[k].target, p, int(ra[0]))
				}
				if ra[1] > sum {
					out = append(out, int(ra[0]))
				}
			}
			return out
		}
		// executor-level facts of this round
		if onlyAPI {
			if len(api.calls) != len(ex.calls) {
				h.Fail("C11:executor-api-mismatch", "round %d: %d Evict calls but %d eviction API calls", rd, len(ex.calls), len(api.calls))
			} else {
				for i, c := range ex.calls {
					a := api.calls[i]
					if a.pod != c.pod || a.uid != fmt.Sprintf("u%d", c.pod) {
						h.Fail("C11:executor-api-mismatch", "round %d: Evict(pod %d) called the API for pod %d uid %q", rd, c.pod, a.pod, a.uid)
					}
					if c.ok != (a.code == 0) {
						h.Fail("C11:executor-result-mismatch", "round %d: eviction API answered %s for pod %d but Evict returned %v", rd, c11xCodeNames[a.code], c.pod, c.ok)
					}
				}
			}
		} else if len(api.calls) != 0 {
			h.Fail("C11:executor-api-mismatch", "round %d: %d eviction API calls without OnlyEvictByAPI", rd, len(api.calls))
		}
		// across rounds: never again a pod whose eviction already succeeded
		for _, c := range ex.calls {
			if legit(c.pod) {
				h.Fail("C11:evicted-twice-across-rounds", "round %d: pod %d handed to Evict again although its eviction succeeded in an earlier round", rd, c.pod)
			}
		}
		// walk every task's published list as the property reads it
		ci := 0 // next unconsumed call
		desync := false
		okThis := map[int]bool{}
		failedNow := map[int]bool{} // an eviction call for the pod failed earlier in this round (another task)
		for k := 0; k < nTasks && !desync; k++ {
			if len(short(k)) == 0 {
				if ci < len(ex.calls) && ex.calls[ci].task == k {
					h.Fail("C11:evict-after-met", "round %d task %d: pod %d evicted although the target is already covered", rd, k, ex.calls[ci].pod)
					desync = true
				}
				continue
			}
			for _, p := range rts[k].pods {
				if counted[p] {
					continue
				}
				if legit(p) {
					count(p) // still terminating: pending release
					pendingSeen = true
					if len(short(k)) == 0 {
						break
					}
					continue
				}
				// the target is uncovered and p is the next pod in published order: it has to be tried now
				if ci >= len(ex.calls) || ex.calls[ci].task != k || ex.calls[ci].pod != p {
					if lastFailed[p] || failedNow[p] {
						h.Fail("C11:failed-eviction-not-retried", "round %d task %d: pod %d (its last eviction call failed) is next in the published order, the target is uncovered, but it was not tried", rd, k, p)
					} else {
						h.Fail("C11:skipped-candidate", "round %d task %d: pod %d is next in the published order, the target is uncovered, but it was not tried", rd, k, p)
					}
					desync = true
					break
				}
				c := ex.calls[ci]
				ci++
				if lastFailed[p] || failedNow[p] {
					retryScenario = true
				}
				if !c.ok {
					failedNow[p] = true
				}
				if c.ok {
					okThis[p] = true
					count(p)
					if len(short(k)) == 0 {
						break
					}
				}
			}
			if !desync && ci < len(ex.calls) && ex.calls[ci].task == k {
				c := ex.calls[ci]
				if len(short(k)) == 0 {
					h.Fail("C11:evict-after-met", "round %d task %d: pod %d evicted although the target is already covered", rd, k, c.pod)
				} else if counted[c.pod] {
					h.Fail("C11:double-evict", "round %d task %d: pod %d passed to Evict after it was evicted / counted", rd, k, c.pod)
				} else {
					h.Fail("C11:out-of-order", "round %d task %d: pod %d evicted out of the published order", rd, k, c.pod)
				}
				desync = true
			}
		}
		if !desync && ci < len(ex.calls) {
			h.Fail("C11:out-of-order", "round %d: Evict call for task %d after its turn", rd, ex.calls[ci].task)
			desync = true
		}
		anyOK := false
		for _, c := range ex.calls {
			anyOK = anyOK || c.ok
		}
		if newly != anyOK {
			h.Fail("C11:newly-flag", "round %d: newlyEvicted=%v but successful evictions=%v", rd, newly, anyOK)
		}
		// accounting: what the round reports as released
		overFP := "C11:release-overcounted" // credited more than evicted; by name when a failed pod is around
		for k2 := range tmpl {
			for _, p := range rts[k2].pods {
				if (lastFailed[p] || failedNow[p]) && !legit(p) && !okThis[p] {
					overFP = "C11:failed-eviction-credited"
				}
			}
		}
		for _, c := range ex.calls {
			if !c.ok {
				overFP = "C11:failed-eviction-credited"
			}
		}
		seenKey := map[[2]int]bool{}
		for k := range tmpl {
			for _, ra := range rts[k].to {
				key := [2]int{tmpl[k].target, int(ra[0])}
				if seenKey[key] {
					continue
				}
				seenKey[key] = true
				got := relAt[key]
				if !desync {
					var want int64
					for _, p := range countedL {
						want += agg(key[0], p, key[1])
					}
					if got < want {
						h.Fail("C11:release-undercounted", "round %d target %d res %d: returned %d < released by victims and terminating pods %d", rd, key[0], key[1], got, want)
					} else if got > want {
						h.Fail(overFP, "round %d target %d res %d: returned %d > %d = what the successful victims and the truly evicted (terminating) pods release", rd, key[0], key[1], got, want)
					}
				}
				// upper bound that needs no walk: nothing is credited but this round's successful victims and listed pods evicted earlier
				var ub int64
				seenP := map[int]bool{}
				for _, c := range ex.calls {
					if c.ok && !seenP[c.pod] {
						seenP[c.pod] = true
						ub += agg(key[0], c.pod, key[1])
					}
				}
				for k2 := range tmpl {
					for _, p := range rts[k2].pods {
						if legit(p) && !seenP[p] {
							seenP[p] = true
							ub += agg(key[0], p, key[1])
						}
					}
				}
				if got > ub {
					h.Fail(overFP, "round %d target %d res %d: returned %d > %d although only successful victims and pods evicted earlier may be credited", rd, key[0], key[1], got, ub)
				}
			}
		}
		// EvictTaskCheck must agree with the returned list
		for k := range tmpl {
			want := true
			for _, ra := range rts[k].to {
				if ra[1] > relAt[[2]int{tmpl[k].target, int(ra[0])}] {
					want = false
				}
			}
			if doneImpl[k] != want {
				h.Fail("C11:task-check", "round %d task %d: EvictTaskCheck=%v but the returned list says %v", rd, k, doneImpl[k], want)
			}
		}
		// executor state: evicted == an eviction call for the pod succeeded (within the TTL)
		for p := 0; p < nPods; p++ {
			should := onlyAPI && started && (succ[p] || okThis[p] || func() bool {
				for _, c := range ex.calls {
					if c.pod == p && c.ok {
						return true
					}
				}
				return false
			}())
			if cachedNow[p] && !should {
				h.Fail("C11:failed-eviction-credited", "round %d: IsPodEvicted(pod %d) although no eviction call for it ever succeeded", rd, p)
			}
			if !cachedNow[p] && should {
				h.Fail("C11:evicted-pod-forgotten", "round %d: IsPodEvicted(pod %d) is false although its eviction succeeded within the TTL", rd, p)
			}
		}

		// -- history bookkeeping
		for _, c := range ex.calls {
			if c.ok {
				if onlyAPI {
					succ[c.pod] = true
				}
				lastFailed[c.pod] = false
			} else {
				lastFailed[c.pod] = true
			}
		}
		prevCalls = ex.calls
		h.Tag(fmt.Sprintf("calls-in-round:%d", len(ex.calls)))
	}
	close(stop)
	if time.Since(caseStart) > time.Duration(c11xTTLSeconds/2)*time.Second {
		h.Fail("C11:harness-ttl", "a case took more than half the cache TTL; model time 0 is no longer valid")
	}
	if retryScenario {
		h.Tag("scenario:failed-then-retried")
	}
	if pendingSeen {
		h.Tag("scenario:pending-credit-across-rounds")
	}
	if retryScenario || pendingSeen {
		h.Nontrivial()
	}
	h.End()
}

func c11xQuietLogs() {
	// keep the real code's logging out of the test output
	fs := flag.NewFlagSet("klog", flag.ContinueOnError)
	klog.InitFlags(fs)
	_ = fs.Set("logtostderr", "false")
	_ = fs.Set("alsologtostderr", "false")
	_ = fs.Set("stderrthreshold", "FATAL")
	klog.SetOutput(io.Discard)
}

func TestVerifC11Rounds(t *testing.T) {
	h := vOpen("C11")
	if h == nil {
		t.Skip("VERIF_OUT not set")
	}
	c11xQuietLogs()
	n := h.N(3000, 60000)
	for idx := 0; idx < n; idx++ {
		r := h.Begin(idx)
		if r == nil {
			continue
		}
		nPods := r.Range(2, 6)
		fields := make([][4]int64, nPods)
		for i := range fields {
			for f := 0; f < 4; f++ {
				if r.Chance(1, 8) {
					fields[i][f] = 0
				} else {
					fields[i][f] = int64(r.Range(1, 12))
				}
			}
		}
		onlyAPI := r.Chance(3, 4)
		started := !r.Chance(1, 10)
		nRounds := r.Range(2, 5)
		nTasks := r.Range(1, 3)
		sameTarget := r.Chance(1, 3)
		tmpl := make([]c11xTaskTmpl, nTasks)
		for ti := range tmpl {
			tk := &tmpl[ti]
			tk.target = r.Intn(3)
			if sameTarget && ti > 0 {
				tk.target = tmpl[0].target
			}
			perm := r.Perm(4)
			nRes := 1
			if r.Chance(1, 4) {
				nRes = 2
			}
			tk.res = append(tk.res, perm[:nRes]...)
			sort.Ints(tk.res)
			for _, res := range tk.res {
				tk.fn = append(tk.fn, [2]int{res, r.Intn(4)})
			}
			tk.order = r.Perm(nPods)
		}
		// failure climate of the eviction API
		climate := r.Intn(5) // 0 all ok, 1 mostly ok, 2 half, 3 mostly failing, 4 first round all failing then mixed
		present := make([]bool, nPods)
		for p := range present {
			present[p] = !r.Chance(1, 8)
		}
		linger := make([]int, nPods) // rounds a successfully evicted pod stays visible (terminating)
		for p := range linger {
			linger[p] = []int{0, 1, 1, 2, 9}[r.Intn(5)]
		}

		succW := map[int]bool{}     // world: the pod's eviction succeeded (it is terminating)
		goneAfter := map[int]int{} // round index after which a successfully evicted pod disappears
		plan := &c11xPlan{nPods: nPods, fields: fields, onlyAPI: onlyAPI, started: started, nRounds: nRounds, tmpl: tmpl}
		plan.round = func(rd int, prev []c11Call) ([]c11xRTask, []int) {
			if rd > 0 { // the world between rounds
				for _, c := range prev {
					if c.ok && onlyAPI && !succW[c.pod] {
						succW[c.pod] = true
						goneAfter[c.pod] = rd - 1 + linger[c.pod]
					}
				}
				for p := 0; p < nPods; p++ {
					if succW[p] && rd-1 >= goneAfter[p] {
						present[p] = false // terminated
					} else if !succW[p] {
						if present[p] && r.Chance(1, 14) {
							present[p] = false // deleted by someone else
						} else if !present[p] && r.Chance(1, 4) {
							present[p] = true // (re)appears
						}
					}
				}
			}
			// -- this round's lists and targets
			rts := make([]c11xRTask, nTasks)
			total := 0
			for ti, tk := range tmpl {
				if r.Chance(1, 5) {
					tmpl[ti].order = r.Perm(nPods) // usage changed: new order
					tk = tmpl[ti]
				}
				for _, res := range tk.res {
					rts[ti].to = append(rts[ti].to, [2]int64{int64(res), int64(r.Range(1, 25))})
				}
				for _, p := range tk.order {
					if present[p] && !r.Chance(1, 10) {
						rts[ti].pods = append(rts[ti].pods, p)
					}
				}
				total += len(rts[ti].pods)
			}
			script := make([]int, total)
			for i := range script {
				fail := false
				switch climate {
				case 1:
					fail = r.Chance(1, 5)
				case 2:
					fail = r.Chance(1, 2)
				case 3:
					fail = r.Chance(4, 5)
				case 4:
					fail = rd == 0 || r.Chance(1, 3)
				}
				if fail {
					script[i] = r.Range(1, len(c11xCodeNames)-1)
				}
			}
			if !onlyAPI {
				script = nil // no API call is ever made
			}

			return rts, script
		}
		c11xRun(h, t, plan)
	}
	h.Close("2-5 consecutive KillAndEvictPods rounds over 2-6 pods against the real Evictor + DefaultEvictionExecutor (OnlyEvictByAPI true 3/4, " +
		"Evictor started 9/10, default TTL) and a fake clientset whose eviction reactor answers ok/429/404/500/timeout/403/transport error from a " +
		"script in five failure climates; 1-3 tasks (shared or distinct targets), per-round targets, orders re-drawn 1/5, pods terminating after a " +
		"successful eviction for 0-9 rounds, vanishing and (re)appearing; non-trivial = a failed pod is retried in a later round or a pod evicted " +
		"earlier is credited as pending; distinct by op lines")
}

// small-scope EXHAUSTIVE stream (thorough tier): 2 pods, 1 task over one resource, 2 rounds; every combination of
// release amounts {0,1,2}^2, executor mode, per-round target {1,2,3}, per-round list ([], [0], [1], [0,1], [1,0]) and
// (API mode) per-round outcomes of two eviction calls.
func TestVerifC11RoundsExhaustive(t *testing.T) {
	h := vOpen("C11")
	if h == nil {
		t.Skip("VERIF_OUT not set")
	}
	c11xQuietLogs()
	lists := [][]int{{}, {0}, {1}, {0, 1}, {1, 0}}
	perRoundAPI, perRoundKill := 3*5*4, 3*5
	total := 9 * (perRoundAPI*perRoundAPI + perRoundKill*perRoundKill)
	n := h.N(total, total)
	for idx := 0; idx < n; idx++ {
		if r := h.Begin(idx); r == nil {
			continue
		}
		x := idx
		f0, f1 := int64(x%3), int64(x/3%3)
		x /= 9
		onlyAPI := x < perRoundAPI*perRoundAPI
		per := perRoundAPI
		if !onlyAPI {
			x -= perRoundAPI * perRoundAPI
			per = perRoundKill
		}
		rx := [2]int{x % per, x / per}
		plan := &c11xPlan{nPods: 2, fields: [][4]int64{{f0, 0, 0, 0}, {f1, 0, 0, 0}}, onlyAPI: onlyAPI, started: true, nRounds: 2,
			tmpl: []c11xTaskTmpl{{target: 0, res: []int{1}, fn: [][2]int{{1, 0}}, order: []int{0, 1}}}}
		plan.round = func(rd int, prev []c11Call) ([]c11xRTask, []int) {
			y := rx[rd]
			amt := int64(y%3 + 1)
			l := lists[y/3%5]
			var script []int
			if onlyAPI {
				o := y / 15
				script = []int{1 - o%2, 1 - o/2%2} // 0 ok, 1 = 429
			}
			return []c11xRTask{{to: [][2]int64{{1, amt}}, pods: l}}, script
		}
		c11xRun(h, t, plan)
	}
	h.Close("exhaustive small scope: 2 pods x release {0,1,2}, 1 task, 2 rounds, target {1,2,3}, 5 lists, both executor modes, " +
		"all outcomes of 2 eviction calls per round; non-trivial as in `rounds`")
}
