#!/bin/sh
# Convenience (not registered in MANIFEST): run every READY check at one tier and summarise.
# usage: ./run_all.sh [quick|thorough] [seed]
cd "$(dirname "$0")"
TIER=${1:-quick}; SEED=${2:-1}
rc_all=0
for p in $(sort props/READY); do
  out=$(VERIF_SEED=$SEED ./check.py $p --tier $TIER 2>&1); rc=$?
  echo "$out" | grep -v "^KNOWN-FINDING" | tail -3 | sed "s/^/[$p rc=$rc] /"
  [ $rc -ne 0 ] && rc_all=1
done
echo "ALL rc=$rc_all"
exit $rc_all
