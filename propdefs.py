"""Per-property configuration for check.py (harness packages, trusted base, assumptions)."""

FLOAT_NOTE = "IEEE-754 binary64: Lean runtime Float and Go float64 agree bit-for-bit on * / ceil round (driver instantiates the model's float parameter with Float; theorems assume only the stated algebraic facts)"

PROPS = {
    "C14": {
        "facts": True,
        "level_text": "Theorems (Lean kernel) over the executable model: container values are the standard conversion with the literals of the statement, pod >= every container for shares/quota/memory with -1 as top, unlimited propagates, non-BE untouched; all container lists, all amounts. Model tied to the hook code by 4k/120k-case differential runs and to the constants by regenerated tie lemmas.",
        "level_note": "Trusted: Lean kernel; hand model ~ Go code only by sampling (correspondence); float64 ceil(q/ratio) enters as hypotheses ScaleOK tested per input; Quantity/JSON glue exercised not modelled; perf_group stub.",
        "harness": [{"name": "hook", "pkg": "pkg/koordlet/runtimehooks/hooks/batchresource", "test": "TestVerifC14"}],
        "trusted_base": [
            "perf_group cgo file replaced by a pure-Go stub for the harness build (libpfm headers absent)",
            "resource.Quantity.Value(), encoding/json and the protocol request builders are exercised, not modelled",
            FLOAT_NOTE,
        ],
        "assumptions": [
            "int64 products m*1024 and m*100000 do not wrap: generated amounts < 2^41 (Go) / unbounded Int (Lean)",
            "ScaleOK (0 < f q <= q, monotone) for the float64 ceil(q/ratio) when ratio > 1; checked on every generated input",
        ],
    },
}

# properties deliberately not claimed, with the reason (kept current by hand)
NOT_APPLICABLE = {}
