"""Per-property configuration for check.py: one JSON file per property under props/."""
import json, os, glob

_D = os.path.dirname(os.path.abspath(__file__))
PROPS = {}
for _f in sorted(glob.glob(os.path.join(_D, "props", "C*.json"))):
    PROPS[os.path.basename(_f)[:-5]] = json.load(open(_f))

# properties deliberately not claimed, with the reason (kept current by hand)
NOT_APPLICABLE = {}
