#!/usr/bin/env python3
"""Regenerates MANIFEST.json from propdefs.py (keeps it schema-valid at all times)."""
import json, os, sys
VERIF = os.path.dirname(os.path.abspath(__file__))
sys.path.insert(0, VERIF)
from propdefs import PROPS, NOT_APPLICABLE

all_ids = [json.loads(l)["id"] for l in open(os.path.join(VERIF, "properties.jsonl"))]
ready = set(open(os.path.join(VERIF, "props", "READY")).read().split())
checks = []
for pid in all_ids:
    if pid not in PROPS or pid not in ready:
        continue
    c = PROPS[pid]
    checks.append({
        "property_id": pid,
        "quick_cmd": f"./check.py {pid} --tier quick",
        "thorough_cmd": f"./check.py {pid} --tier thorough",
        "evidence_file": f"evidence/{pid}.json",
        "replay_cmd_template": f"./check.py {pid} --replay {{path}}",
        "engine": "lean4-proof+correspondence",
        "level_claimed": {"category": c.get("level", "proof"), "text": c["level_text"], "design_ref": f"DESIGN.md §4 {pid}"},
        "level_note": c["level_note"],
        "technique": c.get("technique", "Lean 4 theorems over an executable model; model tied to /repo by differential correspondence + regenerated facts"),
    })
na = [{"property_id": p, "reason": NOT_APPLICABLE.get(p, "check not built yet in this round; see DESIGN.md §8")} for p in all_ids if p not in PROPS or p not in ready]
m = {
    "version": 1,
    "setup_cmd": "./setup.sh",
    "hooks": {
        "guard": "verif",
        "enable": "go test -tags verif -overlay build/overlay_gen/<Cxx>/overlay.json (in-package harness files live in /verif/harness/overlay and are injected with -overlay; /repo carries no hook code)",
        "baseline_off_cmd": "cd /repo && GOFLAGS=-mod=mod go test -vet=off -count=1 ./...",
        "source_commits": [],
        "add_only": True,
    },
    "engines": [{
        "name": "lean4-proof+correspondence", "path": "check.py",
        "serves_properties": [c["property_id"] for c in checks],
        "kind_free_text": "Lean 4 (kernel-checked theorems about executable models, lean/KoordVerif) + Go in-package differential harness (harness/overlay) + go/ast fact extractor (harness/extract)",
    }],
    "checks": checks,
    "not_applicable": na,
    "notes": "See DESIGN.md. known_findings.json lists genuine defects (open / fixed). Evidence is rewritten by every run.",
}
json.dump(m, open(os.path.join(VERIF, "MANIFEST.json"), "w"), indent=1)
print(f"{len(checks)} checks, {len(na)} not claimed")
